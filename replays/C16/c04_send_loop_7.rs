// Concrete counterexample produced by Kani/CBMC for harness protocol::gv_protocol::c04_send_loop_7 (property C16).
// Replay: ./check C16 --replay /verif/replays/C16/c04_send_loop_7.rs
// module: protocol_child.rs
// assertion: ""gv: send-time validation must check the packet in the form (alias, topic omitted or not) in which it is encoded""
#[test]
fn kani_concrete_playback_c04_send_loop_7_12635161684366870852() {
    let concrete_vals: Vec<Vec<u8>> = vec![
        // 65535
        vec![255, 255],
        // 4294967295
        vec![255, 255, 255, 255],
    ];
    kani::concrete_playback_run(concrete_vals, c04_send_loop_7);
}
