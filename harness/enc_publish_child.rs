// @gv-module parent=gneiss-mqtt/src/mqtt/publish.rs name=gv_enc_publish pkg=gneiss-mqtt
//
// Child module of mqtt/publish.rs (sees the private accessors). C02 / C17: PUBLISH on the wire vs the OASIS layout.
use super::{decode_publish_packet5, decode_publish_packet311, decode_publish_properties, write_publish_encoding_steps5, write_publish_encoding_steps311, get_publish_packet_topic, get_publish_packet_response_topic,
    get_publish_packet_correlation_data, get_publish_packet_content_type, get_publish_packet_user_property, get_publish_packet_payload};
use crate::encode::{EncodingStep, EncodingContext};
use crate::alias::OutboundAliasResolution;
use crate::mqtt::{MqttPacket, ProtocolVersion, PublishPacket, UserProperty, QualityOfService, PayloadFormatIndicator};
use std::collections::VecDeque;

include!("common.rs");
include!("encode_common.rs");

const F_TOPIC: u8 = 1; const F_RESPONSE_TOPIC: u8 = 2; const F_CONTENT_TYPE: u8 = 3; const F_CORRELATION: u8 = 4; const F_PAYLOAD: u8 = 5;
const F_UP_NAME: u8 = 6; const F_UP_VALUE: u8 = 7;

fn field_of(step: &EncodingStep) -> (u8, usize) {
    match step {
        EncodingStep::StringSlice(g, _) => {
            let a = *g as usize;
            if a == get_publish_packet_topic as fn(&MqttPacket) -> &str as usize { (F_TOPIC, 0) }
            else if a == get_publish_packet_response_topic as fn(&MqttPacket) -> &str as usize { (F_RESPONSE_TOPIC, 0) }
            else if a == get_publish_packet_content_type as fn(&MqttPacket) -> &str as usize { (F_CONTENT_TYPE, 0) }
            else { (0, 0) }
        }
        EncodingStep::BytesSlice(g, _) => {
            let a = *g as usize;
            if a == get_publish_packet_correlation_data as fn(&MqttPacket) -> &[u8] as usize { (F_CORRELATION, 0) }
            else if a == get_publish_packet_payload as fn(&MqttPacket) -> &[u8] as usize { (F_PAYLOAD, 0) }
            else { (0, 0) }
        }
        EncodingStep::UserPropertyName(g, i, _) => { if *g as usize == get_publish_packet_user_property as fn(&MqttPacket, usize) -> &UserProperty as usize { (F_UP_NAME, *i) } else { (0, 0) } }
        EncodingStep::UserPropertyValue(g, i, _) => { if *g as usize == get_publish_packet_user_property as fn(&MqttPacket, usize) -> &UserProperty as usize { (F_UP_VALUE, *i) } else { (0, 0) } }
        _ => (0, 0),
    }
}

/// alias resolution outcome: 0 = none, 1 = alias with topic, 2 = alias, topic skipped
fn publish_body(v5: bool, amode: u8, pm: u8, with_payload: bool, cap: usize, q: u8) { publish_body_len(v5, amode, pm, with_payload, cap, q, 3, 5) }

fn publish_body_len(v5: bool, amode: u8, pm: u8, with_payload: bool, cap: usize, q: u8, payload_len: usize, ct_len: usize) {
    // QoS is concrete per shape: a conditional push makes every later deque slot index symbolic (measured: out of memory)
    // pm: property subset bit mask: 1 = payload format + message expiry, 2 = response topic + correlation data, 4 = content type + one user property
    let (p1, p2, p4) = (pm & 1 != 0, pm & 2 != 0, pm & 4 != 0);
    let pid: u16 = kani::any();
    let (dup, retain): (bool, bool) = (kani::any(), kani::any());
    let alias: u16 = kani::any();
    let mei: u32 = kani::any();
    // concrete: Option<PayloadFormatIndicator> is niche-encoded, so a symbolic indicator makes `is_some()` symbolic for CBMC
    let pfi: bool = q != 0;
    // field contents are irrelevant to the layout (they are copied by the slice steps, c02_step_slices); lengths are concrete
    let inner = PublishPacket {
        topic: "tt".to_string(), qos: qos_of(q), packet_id: pid, duplicate: dup, retain,
        payload: if with_payload { Some(vec![7u8; payload_len]) } else { None },
        payload_format: if p1 { Some(if pfi { PayloadFormatIndicator::Utf8 } else { PayloadFormatIndicator::Bytes }) } else { None },
        message_expiry_interval_seconds: if p1 { Some(mei) } else { None },
        response_topic: if p2 { Some("r".to_string()) } else { None },
        correlation_data: if p2 { Some(vec![1u8; 4]) } else { None },
        content_type: if p4 { Some(unsafe { String::from_utf8_unchecked(vec![b'c'; ct_len]) }) } else { None },
        user_properties: if p4 { Some(vec![UserProperty { name: "n".to_string(), value: "vv".to_string() }]) } else { None },
        topic_alias: if kani::any() { Some(kani::any()) } else { None }, // the user's alias wish; only the RESOLUTION reaches the wire
        ..Default::default()
    };
    let res = match amode { 0 => OutboundAliasResolution { skip_topic: false, alias: None }, 1 => OutboundAliasResolution { skip_topic: false, alias: Some(alias) },
                            _ => OutboundAliasResolution { skip_topic: true, alias: Some(alias) } };
    let c = ctx(if v5 { ProtocolVersion::Mqtt5 } else { ProtocolVersion::Mqtt311 }, res);
    // pre-sized: growing the deque reallocates (measured: out of memory), and memory grows with the
    // buffer size (capacity 8: 2 GB, 64: > 12 GB), so each shape uses the smallest capacity that holds its steps
    let mut steps: VecDeque<EncodingStep> = VecDeque::with_capacity(cap);
    let r = if v5 { write_publish_encoding_steps5(&inner, &c, &mut steps) } else { write_publish_encoding_steps311(&inner, &c, &mut steps) };
    assert!(r.is_ok());
    // layout: MQTT5 3.3 / MQTT 3.1.1 3.3
    let mut w = Layout::new();
    w.u8(0x30 | (if dup { 8 } else { 0 }) | (q << 1) | (if retain { 1 } else { 0 }));
    let rl = w.hole();
    if v5 && amode == 2 { w.u16(0); } else { w.lp(F_TOPIC, 0, 2); }   // 3.1.1 has no aliases: the topic is always sent
    if q > 0 { w.u16(pid); }
    if v5 {
        let pl = w.hole();
        w.in_props = true;
        if p1 { w.u8(1); w.u8(if pfi { 1 } else { 0 }); w.u8(2); w.u32(mei); }
        if amode != 0 { w.u8(35); w.u16(alias); }
        if p2 { w.u8(8); w.lp(F_RESPONSE_TOPIC, 0, 1); w.u8(9); w.lp(F_CORRELATION, 0, 4); }
        if p4 { w.u8(3); w.lp(F_CONTENT_TYPE, 0, ct_len); w.u8(38); w.lp(F_UP_NAME, 0, 1); w.lp(F_UP_VALUE, 0, 2); }
        w.in_props = false;
        let plen = w.bytes_from(pl + 1, true);
        w.fill(pl, plen);
    }
    if with_payload { w.raw(F_PAYLOAD, 0, payload_len); }
    let rlen = w.bytes_from(rl + 1, false);
    w.fill(rl, rlen);
    kani::cover!(dup && retain, "DUP and RETAIN flags set");
    check_steps(&mut steps, &w, field_of);
    std::mem::forget(r); std::mem::forget(steps); std::mem::forget(inner);
}

// @gv props=C02,C17 tier=quick required=yes fns=write_publish_encoding_steps5,compute_publish_packet_length_properties5,compute_publish_fixed_header_first_byte
// @gv bounds="PUBLISH/MQTT5 without alias and without optional properties, 3-byte payload; QoS concrete per shape (0/1/2 spread over the shapes), symbolic packet id, DUP, retain, alias value, expiry; field lengths concrete (1..5 bytes)"
// @gv timeout=1200 mem=5
#[kani::proof]
#[kani::unwind(10)]
#[kani::stub(std::fmt::format, stub_format)]
fn c02_publish5_plain() { publish_body(true, 0, 0, true, 8, 1) }

// @gv props=C02,C17 tier=quick required=yes fns=write_publish_encoding_steps5,compute_publish_packet_length_properties5,compute_publish_fixed_header_first_byte
// @gv bounds="PUBLISH/MQTT5, alias resolved and topic SKIPPED (empty topic + alias property), 3-byte payload; QoS concrete per shape (0/1/2 spread over the shapes), symbolic packet id, DUP, retain, alias value, expiry; field lengths concrete (1..5 bytes)"
// @gv timeout=1200 mem=5
#[kani::proof]
#[kani::unwind(12)]
#[kani::stub(std::fmt::format, stub_format)]
fn c02_publish5_alias_skip() { publish_body(true, 2, 0, true, 16, 2) }

// @gv props=C02,C17 tier=quick required=yes fns=write_publish_encoding_steps5,compute_publish_packet_length_properties5,compute_publish_fixed_header_first_byte
// @gv bounds="PUBLISH/MQTT5, alias announced together with the topic, NO payload (identical to an empty payload on the wire); QoS concrete per shape (0/1/2 spread over the shapes), symbolic packet id, DUP, retain, alias value, expiry; field lengths concrete (1..5 bytes)"
// @gv timeout=1200 mem=5
#[kani::proof]
#[kani::unwind(12)]
#[kani::stub(std::fmt::format, stub_format)]
fn c02_publish5_alias_bind_nopayload() { publish_body(true, 1, 0, false, 16, 0) }

// @gv props=C02,C17 tier=quick required=yes fns=write_publish_encoding_steps5,compute_publish_packet_length_properties5,compute_publish_fixed_header_first_byte
// @gv bounds="PUBLISH/MQTT5 with payload-format indicator and message expiry (+ alias property); QoS concrete per shape (0/1/2 spread over the shapes), symbolic packet id, DUP, retain, alias value, expiry; field lengths concrete (1..5 bytes)"
// @gv timeout=1200 mem=5
#[kani::proof]
#[kani::unwind(16)]
#[kani::stub(std::fmt::format, stub_format)]
fn c02_publish5_props_a() { publish_body(true, 1, 1, true, 16, 1) }

// @gv props=C02,C17 tier=thorough required=no fns=write_publish_encoding_steps5,compute_publish_packet_length_properties5,compute_publish_fixed_header_first_byte
// @gv bounds="PUBLISH/MQTT5 with response topic and correlation data; QoS concrete per shape (0/1/2 spread over the shapes), symbolic packet id, DUP, retain, alias value, expiry; field lengths concrete (1..5 bytes)"
// @gv timeout=1200 mem=5
#[kani::proof]
#[kani::unwind(16)]
#[kani::stub(std::fmt::format, stub_format)]
fn c02_publish5_props_b() { publish_body(true, 0, 2, true, 16, 0) }

// @gv props=C02,C17 tier=thorough required=no fns=write_publish_encoding_steps5,compute_publish_packet_length_properties5,compute_publish_fixed_header_first_byte
// @gv bounds="PUBLISH/MQTT5 with content type and one user property; QoS concrete per shape (0/1/2 spread over the shapes), symbolic packet id, DUP, retain, alias value, expiry; field lengths concrete (1..5 bytes)"
// @gv timeout=1200 mem=5
#[kani::proof]
#[kani::unwind(18)]
#[kani::stub(std::fmt::format, stub_format)]
fn c02_publish5_props_c() { publish_body(true, 0, 4, true, 16, 2) }

// @gv props=C02,C17 tier=quick required=yes fns=write_publish_encoding_steps311,compute_publish_packet_length_properties311
// @gv bounds="PUBLISH/MQTT3.1.1 with every MQTT5-only field set and an alias resolution that asks to skip the topic: none of it may reach the wire; 3-byte payload; QoS concrete per shape (0/1/2 spread over the shapes), symbolic packet id, DUP, retain, alias value, expiry; field lengths concrete (1..5 bytes)"
// @gv timeout=1200 mem=5
#[kani::proof]
#[kani::unwind(10)]
#[kani::stub(std::fmt::format, stub_format)]
fn c02_publish311() { publish_body(false, 2, 7, true, 8, 1) }

// @gv props=C02 tier=thorough required=no fns=write_publish_encoding_steps311,compute_publish_packet_length_properties311
// @gv bounds="PUBLISH/MQTT3.1.1 QoS0 without payload"
// @gv timeout=1200 mem=5
#[kani::proof]
#[kani::unwind(10)]
#[kani::stub(std::fmt::format, stub_format)]
fn c02_publish311_q0_nopayload() { publish_body(false, 0, 0, false, 8, 0) }

// @gv props=C02 tier=quick required=yes fns=write_publish_encoding_steps5,compute_publish_packet_length_properties5
// @gv bounds="PUBLISH/MQTT5 whose property section (content type of 130 bytes + user property) needs a two-byte and whose remaining length (payload of 20000 bytes) needs a three-byte Variable Byte Integer; symbolic id and flags"
// @gv timeout=1200 mem=5
#[kani::proof]
#[kani::unwind(18)]
#[kani::stub(std::fmt::format, stub_format)]
fn c02_publish5_vbi_boundaries() { publish_body_len(true, 0, 4, true, 16, 1, 20000, 130) }

// @gv props=C02 tier=thorough required=no fns=write_publish_encoding_steps311,compute_publish_packet_length_properties311
// @gv bounds="PUBLISH/MQTT3.1.1 with a 200-byte payload (two-byte remaining length)"
// @gv timeout=1200 mem=5
#[kani::proof]
#[kani::unwind(10)]
#[kani::stub(std::fmt::format, stub_format)]
fn c02_publish311_two_byte_length() { publish_body_len(false, 0, 0, true, 8, 1, 200, 5) }


// ------------------------------------------------------------------------------------------------
// STRETCH (no verdict so far: 12 GB within 100 s, also with unwind 6 -- listed as not discharged, never as a pass).
// C03 / C11: the inbound PUBLISH body decoders on hostile bodies. `decode_publish_properties` is replaced by a recorder
// (contract: a pure function of the property bytes), so what is decided is the FRAMING of a PUBLISH body: topic, packet id
// iff QoS > 0, property length (variable byte integer), the property section handed to the property decoder, the payload.
// ------------------------------------------------------------------------------------------------

static mut PROP_CALLS: u32 = 0;
static mut PROP_LEN: usize = 0;
static mut PROP_SUM: u32 = 0;
fn stub_publish_properties(property_bytes: &[u8], _packet: &mut PublishPacket) -> crate::error::GneissResult<()> {
    unsafe {
        PROP_CALLS += 1; PROP_LEN = property_bytes.len();
        let mut sum = 0u32; let mut i = 0; while i < property_bytes.len() { sum = sum * 31 + property_bytes[i] as u32 + 1; i += 1; }
        PROP_SUM = sum;
    }
    Ok(())
}

/// body = topic length (2 bytes, concrete TL) + TL symbolic ASCII bytes + [packet id iff qos>0] + REST symbolic bytes; total concrete
fn publish5_body(qos: u8, tl: usize, rest: usize) {
    unsafe { PROP_CALLS = 0; PROP_LEN = 0; PROP_SUM = 0; }
    let flags: u8 = kani::any(); kani::assume(flags & 0xF6 == 0);          // DUP and RETAIN symbolic
    let first = 0x30u8 | (qos << 1) | flags;
    let mut body = [0u8; 12];
    let mut n = 0usize;
    body[0] = 0; body[1] = tl as u8; n += 2;
    let mut i = 0; while i < tl { let c: u8 = kani::any(); kani::assume(c >= 0x61 && c <= 0x7a); body[n] = c; n += 1; i += 1; }
    let pid: u16 = kani::any();
    if qos > 0 { body[n] = (pid >> 8) as u8; body[n + 1] = pid as u8; n += 2; }
    let rest_at = n;
    let mut i = 0; while i < rest { body[n] = kani::any(); n += 1; i += 1; }
    let r = decode_publish_packet5(first, &body[..n]);
    // specification: property length is a variable byte integer (1..4 bytes, at most 3 continuation bytes)
    let mut plen = 0usize; let mut used = 0usize; let mut vli_ok = false;
    let mut i = 0;
    while i < 4 && i < rest { let b = body[rest_at + i]; plen |= ((b & 0x7f) as usize) << (7 * i); used = i + 1; if b & 0x80 == 0 { vli_ok = true; break; } i += 1; }
    let after = rest - used;
    let expect_ok = vli_ok && plen <= after;
    kani::cover!(expect_ok && plen > 0 && plen < after, "properties and payload both present");
    kani::cover!(vli_ok && plen > after, "property length overstated");
    kani::cover!(!vli_ok, "malformed or truncated property length");
    assert!(r.is_ok() == expect_ok, "gv: a PUBLISH body is accepted iff its property length is well-formed and fits the bytes that follow it");
    if let Ok(p) = &r {
        match &**p {
            MqttPacket::Publish(x) => {
                assert!(x.qos as u8 == qos && x.duplicate == (flags & 8 != 0) && x.retain == (flags & 1 != 0), "gv: fixed-header flags decoded faithfully");
                assert!(x.topic.len() == tl, "gv: topic decoded faithfully");
                let tb = x.topic.as_bytes(); let mut i = 0; while i < tl { assert!(tb[i] == body[2 + i], "gv: topic decoded faithfully"); i += 1; }
                assert!(x.packet_id == if qos > 0 { pid } else { 0 }, "gv: packet id present iff QoS > 0");
                let mut want = 0u32; let mut i = 0; while i < plen { want = want * 31 + body[rest_at + used + i] as u32 + 1; i += 1; }
                assert!(unsafe { PROP_CALLS } == 1 && unsafe { PROP_LEN } == plen && unsafe { PROP_SUM } == want, "gv: the property decoder sees exactly the announced property section");
                let pay_len = after - plen;
                match &x.payload {
                    None => assert!(pay_len == 0, "gv: payload is everything after the properties"),
                    Some(v) => { assert!(v.len() == pay_len && pay_len > 0, "gv: payload is everything after the properties");
                        let mut i = 0; while i < pay_len { assert!(v[i] == body[rest_at + used + plen + i], "gv: payload bytes decoded faithfully"); i += 1; } }
                }
            }
            _ => assert!(false, "gv: PUBLISH decodes to a PUBLISH"),
        }
    }
    std::mem::forget(r);
}

macro_rules! publishfive_body_harness { ($name:ident, $qos:expr, $tl:expr, $rest:expr) => {
    #[kani::proof] #[kani::unwind(6)] #[kani::stub(std::fmt::format, stub_format)] #[kani::stub(super::decode_publish_properties, stub_publish_properties)]
    fn $name() { publish5_body($qos, $tl, $rest); }
} }

// @gv props=C03,C11,C05 tier=thorough required=no fns=decode_publish_packet5,decode_length_prefixed_string,decode_u16,decode_vli_into_mutable
// @gv bounds="MQTT5 PUBLISH QoS1, topic of 1 symbolic lower-case letter, symbolic packet id, then 4 symbolic bytes (property length + properties + payload); DUP/RETAIN symbolic; property decoder recorded"
// @gv timeout=1200 mem=12 unwind=6 stubs="std::fmt::format -> stub_format, decode_publish_properties -> recorder"
publishfive_body_harness!(c03_body_publish5_q1_t1_r4, 1, 1, 4);
// @gv props=C03,C11,C05 tier=thorough required=no fns=decode_publish_packet5
// @gv bounds="as c03_body_publish5_q1_t1_r4 for QoS0 (no packet id), topic of 2 letters, 4 symbolic bytes"
// @gv timeout=1200 mem=12 unwind=6 stubs="std::fmt::format -> stub_format, decode_publish_properties -> recorder"
publishfive_body_harness!(c03_body_publish5_q0_t2_r4, 0, 2, 4);
// @gv props=C03,C11,C05 tier=thorough required=no fns=decode_publish_packet5
// @gv bounds="as c03_body_publish5_q1_t1_r4 for QoS2, empty topic, 3 symbolic bytes"
// @gv timeout=1200 mem=12 unwind=6 stubs="std::fmt::format -> stub_format, decode_publish_properties -> recorder"
publishfive_body_harness!(c03_body_publish5_q2_t0_r3, 2, 0, 3);
