// Concrete counterexample produced by Kani/CBMC for harness decode::gv_decode::c03_reset_for_new_connection (property C11).
// Replay: ./check C11 --replay /verif/replays/C11/c03_reset_for_new_connection.rs
// module: decode_child.rs
/// Test generated for harness `decode::gv_decode::c03_reset_for_new_connection` 
///
/// Check for `cover`: "previous connection ended with a decode error"
///
/// # Warning
///
/// Concrete playback tests combined with stubs or contracts is highly
/// experimental, and subject to change.
///
/// The original harness has stubs which are not applied to this test.
/// This may cause a mismatch of non-deterministic values if the stub
/// creates any non-deterministic value.
/// The execution path may also differ, which can be used to refine the stub
/// logic.

#[test]
fn kani_concrete_playback_c03_reset_for_new_connection_17131916085100577495() {
    let concrete_vals: Vec<Vec<u8>> = vec![
        // 255
        vec![255],
        // 255
        vec![255],
        // 255
        vec![255],
        // 255
        vec![255],
        // 3ul
        vec![3, 0, 0, 0, 0, 0, 0, 0],
        // 1
        vec![1],
        // 255
        vec![255],
        // 1
        vec![1],
        // 65535
        vec![255, 255],
    ];
    kani::concrete_playback_run(concrete_vals, c03_reset_for_new_connection);
}
