#!/usr/bin/env python3
"""Regenerates /verif/MANIFEST.json from the table below (python3 gv/manifest.py)."""
import json
import os
import sys

VERIF = os.path.dirname(os.path.dirname(os.path.abspath(__file__)))
sys.path.insert(0, VERIF)

TECH = "bounded symbolic execution of the real Rust functions with Kani 0.68 / CBMC 6.11 (SAT, CaDiCaL) from kani::any() inputs; native replay of counterexamples"
TRUST = ("Trusted: rustc MIR -> Kani GOTO translation, CBMC, CaDiCaL, association-list models of HashMap/HashSet/LruCache, "
         "the stubs listed in the evidence, oracle transcriptions of the OASIS tables. Every claim is bounded as listed per harness in the evidence. ")

# property -> (claimed?, level text, note (Out line), design ref, extra technique)
LEMMA_TECH = TECH + "; z3+cvc5 for arithmetic composition lemmas"
REC = ("Harnesses named c01_*/c15_close_*/c15_session_*/c15_submit_*/c18_ack_timeouts_fire/c18_close_retry_* replace complete_operation_as_success/failure by recorders: "
       "they decide WHICH operation is completed with WHICH acknowledgement/error and how often, not what the two completion functions do internally. ")

CLAIMED = {
    "C01": ("Selection level plus the completion step itself. The REAL complete_operation_as_success/failure with the real boxed result callbacks (c01_real_*): a written QoS0/1/2 publish, subscribe or unsubscribe "
            "(symbolic packet ids) is resolved exactly once -- callback invoked once with the error, or with the acknowledgement handed in (its packet id and reason-code count reach the caller) --, is untracked afterwards, releases exactly its own packet id "
            "and pending-table entry, leaves another operation's entries alone, and a later second resolution attempt (late ack, racing timeout, reset) delivers nothing; a batch completion (write completion of flushed QoS0 publishes, batch failure) "
            "resolves every member even after an earlier member reported an error. Selection: for every acknowledgement type (PUBACK, successful/failing PUBREC, PUBCOMP, SUBACK, UNSUBACK in both protocol versions) with a symbolic packet id "
            "against an engine holding a pending publish and a pending subscribe/unsubscribe (symbolic ids): the handler completes exactly the pending operation of its own type "
            "that was sent with that id, once, with that acknowledgement and one reason code per entry; a foreign, mistyped, unknown, early or miscounted acknowledgement completes "
            "nothing and is a protocol error. Operations at disconnection, at session loss, at submission while offline and at ack-timeout are completed (failed) exactly when the "
            "specification says so (shared with C15/C18).",
            REC + "The c01_real_* harnesses (thorough tier of this check; two of them are also the quick tier of C06, which shares the mechanism) run the real completion functions on ONE tracked operation (a second boxed operation in the table exhausts memory; the bystander is present through its table entries). "
            "Outside the claim: handler + real completion as one query, reset() over several operations, and every multi-event history.", "5 C01", TECH),
    "C02": ("For every client-to-server packet type in both protocol versions the step list produced by the real write_*_encoding_steps is compared item by item with the wire layout "
            "written from the OASIS specifications (fixed-header flags, Remaining Length = number of bytes that follow, property identifiers and wire types incl. the Subscription "
            "Identifier as a Variable Byte Integer, length-prefixed fields in order, MQTT5-only fields absent in 3.1.1, empty payload = no payload), with all scalar fields symbolic; "
            "separately every u32 through encode_vli, the resumable slice step for all offsets/fills, and what each step kind emits through the real process_encoding_step.",
            "Outside the claim: field lengths other than the concrete ones per shape (the only length-dependent behaviour, VBI sizes and u16 prefixes, is covered by c02_vli and C16's "
            "length checks); more than one user property / two subscriptions; the Encoder::encode loop over a whole packet (its per-step lemmas and the 4-line guard are proved, the "
            "loop composition is not machine-checked); which packet the engine chooses to send.", "5 C02", TECH),
    "C03": ("All reason-code tables against the specification tables for every byte value; decode_vli for all inputs of 0..5 bytes; the framing state machine as per-state step lemmas "
            "from an arbitrary decoder state (type byte; remaining length with 0..3 buffered continuation bytes incl. rejection of a fourth one for every chunking and rejection of an "
            "oversize announcement before any body byte is buffered, for any maximum; body accumulation for concrete small lengths with symbolic contents, the body decoder seeing exactly "
            "the frame once); the bounds-checked primitive readers (binary, string, u16/u32/bool properties) on 0..6 hostile bytes incl. duplicates; a new connection always starts from a fresh decoder; the error state is absorbing.",
            "Outside the claim: the fifteen body decoders behind decode_packet (the MQTT5 PUBLISH body-framing harnesses c03_body_publish5_* are thorough-tier stretch harnesses without a verdict so far: 12 GB within 100 s; replaced by a deterministic recorder in the framing harnesses; the MQTT5 body decoders reach no verdict within 30 min, the 3.1.1 CONNACK decoder is a "
            "thorough-tier harness), therefore 'decoded to exactly that content'; the driver loop decode_bytes as a whole (stretch harnesses on 2-4 byte streams reach no verdict: chunking invariance rests on the per-state step lemmas "
            "plus an induction argument on paper); bodies longer than 4 bytes.", "5 C03", TECH),
    "C04": ("Mechanism level: a first transmission is rejected by validation unless DUP=0 and no id; at disconnection every in-flight QoS1/2 publish (awaiting PUBACK/PUBREC, PUBREL queued "
            "or half encoded, retransmission half encoded, also on a resumed connection) ends exactly once in the retransmission queue with DUP=1, the same id and reservation and its "
            "PUBREL slot, whatever the policy, never failed; session present keeps it unchanged; session absent restarts it as a fresh publish (DUP=0, no id, PUBREL forgotten) or fails it "
            "by policy; one pass of the real send loop (encoder, send-time validation and completion recorded) hands the PUBREL with the same id -- never the PUBLISH again -- to the encoder once a PUBREC has been received, "
            "also for a retransmission on a resumed session; a successful PUBREC sets the PUBREL slot with the same id (thorough tier).",
            REC + "Outside the claim: 'never again after completion', duplicate PUBREC within one connection, and the wire history over several connections (only single passes of the send loop with one "
            "or two queued operations are executed, with the encoder replaced by a recorder).", "5 C04", TECH),
    "C05": ("One inbound PUBLISH (symbolic QoS/id/DUP, inbound set of 0..2 symbolic ids) is surfaced iff it is not an unreleased QoS2 id and queues exactly one PUBACK/PUBREC with its id at "
            "the back of the high-priority queue; PUBREL removes exactly its id and queues one PUBCOMP at the back; session loss clears the set, session resumption keeps it.",
            "Outside the claim: that the queued acknowledgement is eventually encoded (service loop), dispatch_packet_events in the client, and two-step inbound sequences as single queries "
            "(thorough-tier stretch harnesses; they follow from the one-step relations).", "5 C05", TECH),
    "C06": ("acquire_free_packet_id over three symbolic reservations and every cursor position incl. wrap (non-zero, unused, first free at/after the cursor); binding per operation kind and reuse of the "
            "original id by a retransmission; unbind clears reservation and packet together; reservations survive disconnection and session resumption; session loss releases every id incl. those of "
            "re-queued subscribes.",
            "Release of the id when an operation completes is decided by c01_real_fail_q1 / c01_real_ok_q1_puback in this check's quick tier (more kinds in the thorough tier) (real completion functions, one tracked operation). Outside the claim: histories (that every path to completion is one of the decided steps is argued on paper).", "5 C06", TECH),
    "C07": ("CONNECT built from every combination of connect options, rejoin policy and connection history (clean start table, fields copied, server-assigned client id reused) and its wire layout (with C02); "
            "negotiated settings for all 2^11 present/absent CONNACK property combinations; connection-opened queues exactly one CONNECT at the front and arms the deadline, from Disconnected only; "
            "CONNACK in a wrong state or with a failing code is an error and leaves the connection history untouched; a successful CONNACK (symbolic session flag, alias maximum, keep-alive, receive maximum, arrival time; nothing queued) connects, records the success for the rejoin policy, "
            "disarms the CONNACK deadline, resets both alias tables, arms the first ping K seconds after the CONNACK with the server's K and surfaces the CONNACK once; nothing but the high-priority queue is served before CONNACK and nothing after DISCONNECT is written (dequeue gate, with C08/C09).",
            "Outside the claim: handle_connack's success path with operations queued (session handling is decided separately on apply_session_present_to_connection); a CONNACK arriving before the CONNECT was flushed (reading-level finding, DESIGN.md D8); the byte-level "
            "'exactly one CONNECT first' over a whole connection (service loop).", "5 C07", TECH),
    "C08": ("For 0..2 queued operations in every queue arrangement and symbolic flow-control state the reported protocol-queue service time is 'now' exactly when dequeue_operation would hand out an operation; "
            "the connected / pending-CONNACK / pending-DISCONNECT service time equals the minimum of the armed timers (ping due, ping deadline, earliest ack timeout, CONNACK deadline) and 'now' when work is sendable, "
            "with the write-pending exception.",
            "Outside the claim: progress of the whole service loop ('never spins', bounded completion against a responsive broker) and the drivers' sleep logic.", "5 C08", TECH),
    "C09": ("A QoS>0 publish leaves the retransmission/user queue only while the in-flight table is below the (symbolic) receive maximum, also for DUP=1 retransmissions; under one-at-a-time nothing leaves those "
            "queues while the slow-start counter is non-zero and an ack is pending; a fully written QoS>0 publish adds exactly itself to the in-flight table; slow-start marks/counter equal the interrupted operations.",
            "Outside the claim: the decrement of the in-flight table when an operation completes (inside complete_operation_*).", "5 C09", TECH),
    "C10": ("dequeue priority high > retransmission > user, FIFO inside a queue and head-of-line blocking on all two-operation arrangements; sort_operation_deque on contiguous and wrapped ring layouts (sorted, same multiset); "
            "placement of retained operations at disconnection (front/back) and of submissions (back).",
            "Outside the claim: byte order on the wire (service loop); rings larger than capacity 8 / more than 4 elements.", "5 C10", TECH),
    "C11": ("Every harness of every property also proves absence of panics (unwrap/expect/index/overflow/assert) in the real functions it executes for all inputs in its bound; specifically: each inbound packet type in a state "
            "where it is illegal is a clean error with nothing surfaced/queued; AUTH is rejected; a Halted engine rejects service/data/write-completion/open and keeps unresolved operations intact; extreme configuration values "
            "(any Duration as ack timeout / ping timeout / back-off period, keep-alive 1..65535) do not panic; decoder robustness as in C03.",
            "Outside the claim: panics reachable only through event orders across several handlers (CONNACK before the CONNECT was flushed, DESIGN.md D8), the packet dispatcher handle_packet as a whole, and the drivers.", "5 C11", TECH),
    "C12": ("Decision and single-transition level only: compute_optional_state_transition against the rule 'a stop or close request is pursued at once unless a user DISCONNECT is still to be written; close is terminal' for "
            "every current state x desired state x stop-option kind; for each kind of transition (attempt, success, failure, loss, rejection, stop or close requested while connecting / connected / waiting) transition_to_state emits exactly "
            "its lifecycle events in order (attempt; one outcome: failure, or disconnection after a successful CONNACK; stopped), tells the engine about the opened/closed connection exactly once and ends in the right state; thorough tier: a stop "
            "request carrying a DISCONNECT is still pursued when it arrives during the CONNECT/CONNACK handshake.",
            "Engine entry point and listener broadcast are replaced by recorders. Outside the claim (and the larger part of the property): the tokio and threaded event loops that call these functions, every multi-transition history "
            "('exactly one outcome before the next attempt' over a whole run, 'the loop never dies'), timing ('in bounded time once the transport reacts'), thread/task interleavings.", "5 C12", TECH),
    "C13": ("WebSocket adapter only: MessageCursor::read for every message length 0..6, cursor position and destination length 0..4 copies the next bytes in order and advances exactly; successive reads deliver a message larger than the "
            "buffer in order without repetition; WebsocketStreamWrapper::read over two back-to-back messages and over a message larger than the buffer, with tungstenite's read stubbed by its contract.",
            "Outside the claim (declined): the tokio and threaded event loops, partial-write cursors, thread/task interleavings of submit/close, result delivery through channels -- Kani models neither threads nor the async runtime.", "5 C13", TECH),
    "C14": ("service_keep_alive for every K in 1..65535, any ping timeout and clock: PINGREQ at the front, deadline = now + min(ping timeout, K/2 exactly), next ping K s later; failure exactly at (never before) the deadline; no second ping while "
            "one is outstanding; PINGRESP clears the deadline only when one is outstanding in a live state; next-ping extension = max(old, transmission + K) for acknowledged kinds only; K = 0 schedules nothing; PINGREQ wire bytes; one SMT lemma "
            "for the 'no silent interval longer than K' composition.",
            "Arming of the first ping at CONNACK is decided by the shared c07_connack_success. Outside the claim: the service loop actually running at the reported times (C08 covers the reported time).", "5 C14", LEMMA_TECH),
    "C15": ("The policy decision table for all policies x packet kinds x QoS x engine states against the documented table; order-preserving partition; with completion recorded: at submission while not connected, at disconnection for the "
            "current operation, the user queue, unflushed QoS0 and unacknowledged subscribe/unsubscribe, and at session loss for the retransmission queue, an operation is kept (and where) iff the policy preserves its kind and otherwise "
            "failed with the offline-policy error; in-flight QoS1/2 publishes are retained whatever the policy.",
            REC + "Outside the claim: that a failed operation is never sent later and a kept one is sent after reconnection (service loop / histories).", "5 C15", TECH),
    "C16": ("validate_*_outbound for PUBLISH/SUBSCRIBE/UNSUBSCRIBE/DISCONNECT with symbolic field lengths 0..70000 and scalars: accepted iff every static rule holds (both directions); validate_*_outbound_internal against symbolic "
            "negotiated settings with the packet size computed by an independent layout oracle; build_negotiated_settings field by field; in the real send loop an operation is validated when it is dequeued (after its id "
            "is bound) and one that fails is failed locally with the validation error and never reaches the encoder.",
            "Outside the claim: topic/filter grammar beyond the fixed-shape thorough harnesses (str::split on symbolic content did not finish), scanned fields of 5..65535 bytes, the engine calling the validators at the right moments. "
            "One recorded known finding: subscription_identifiers_available is never consulted (known_findings.json).", "5 C16", TECH),
    "C17": ("Manual and LRU outbound resolvers (LRU with configured size above/below the server's maximum) over all publish sequences of length 3-4 on three topics, checked against a model of the server's alias table: no alias 0 or above the "
            "negotiated maximum, empty topic only for an alias the server has bound to exactly that topic on this connection, nothing with maximum 0, bindings do not survive reset; inbound resolver over all sequences of length 3 incl. a reconnect; "
            "PUBLISH wire layout for the three resolution outcomes and for 3.1.1 (with C02).",
            "Also: an aliased publish that fails send-time validation in the real send loop leaves no binding behind that the server has not seen (found and repaired: DESIGN.md D10). "
            "One LRU resolution step from an arbitrary cache size up to 65535 (only the least recently used entry materialised) never yields alias 0 or one above the maximum (found and repaired: D16); every successful CONNACK, with or without session, resets both alias tables (c07_connack_success). "
            "Outside the claim: lru::LruCache itself (replaced by its contract model).", "5 C17", TECH),
    "C18": ("start_operation_ack_timeout records (operation, now + T) iff the operation carries a representable timeout, for any Duration; get_next_ack_timeout / process_ack_timeouts fail exactly the records whose deadline has passed, earliest "
            "first, never before the deadline; interruption counting increments exactly the written-but-unacknowledged operations when a limit is set; the (N+1)-th interruption fails with the retries-exceeded error, fewer do not.",
            REC + "Outside the claim: 'never if the acknowledgement arrived first' (a stale heap record meets complete_operation_as_failure's 'does not exist' branch, inside the stubbed function).", "5 C18", TECH),
    "C19": ("For every base/max/stability Duration and both jitter modes the solver decides: normalize() yields the swapped/raised pair; one "
            "back-off step from any period in [base,max] returns the current period (or, under rand's contract, a value at most that) and stores "
            "min(2*period, max) without panicking; the first two waits after MqttClientImpl::new are the normalized base and its clamped double; leaving Connected "
            "resets the period to the base exactly when the connection outlived the stability period and always forgets the connection's timestamp. "
            "Two SMT lemmas lift the one-step relation to the closed form min(base*2^k, max).",
            "Outside the claim: the inside of compute_uniform_jitter_period (replaced by rand's documented gen_range contract); in the reset-rule harnesses the engine entry point and the "
            "listener broadcast are replaced by recorders; histories of attempts are composed on paper from the one-step facts.",
            "5 C19", LEMMA_TECH),
    "C20": ("apply_aws_defaults over every combination of protocol mode / user-set drain policy / retry limit with all other client options symbolic and preserved; build_final_connect_options keeps the user's client id or generates a "
            "non-empty one and preserves the scalar connect options and custom-auth credentials; thorough tier: the custom-auth query string for 2-byte signatures over {a,+,/,=} with real formatting.",
            "Outside the claim: strings longer than 2 bytes in the query-string harness, pre-encoded signatures, TLS/transport set-up; uuid generation/formatting (stubbed).", "5 C20", TECH),
}

NOT_APPLICABLE = {
}

PENDING_REASON = "check not built yet in this revision of /verif (designed in DESIGN.md section 5; harnesses are being added property by property)"


def main():
    props = [json.loads(l)["id"] for l in open(os.path.join(VERIF, "properties.jsonl")) if l.strip()]
    checks = []
    na = []
    for p in props:
        if p in CLAIMED:
            text, note, ref, tech = CLAIMED[p]
            checks.append({
                "property_id": p,
                "quick_cmd": "./check %s --tier quick" % p,
                "thorough_cmd": "./check %s --tier thorough" % p,
                "evidence_file": "/verif/evidence/%s.json" % p,
                "replay_cmd_template": "./check %s --replay {path}" % p,
                "engine": "kani-cbmc",
                "level_claimed": {"category": "model_checking", "text": text, "design_ref": "DESIGN.md section " + ref},
                "level_note": TRUST + note,
                "technique": tech,
            })
        elif p in NOT_APPLICABLE:
            na.append({"property_id": p, "reason": NOT_APPLICABLE[p]})
        else:
            na.append({"property_id": p, "reason": PENDING_REASON})
    m = {
        "version": 1,
        "setup_cmd": "./setup.sh",
        "hooks": {
            "guard": "cfg(kani)",
            "enable": "no source hooks: every check rsyncs /repo's working tree to a scratch directory, appends `#[cfg(kani)] #[path=..] mod gv_*;` "
                      "child modules (harness/*.rs) to the copies of the real source files and runs cargo kani there; cfg(kani) is only ever set by the Kani compiler",
            "baseline_off_cmd": "cd /repo && cargo nextest run --workspace --no-fail-fast --tool-config-file pb:/w/lib/nextest.toml --profile pb --test-threads 8 --offline",
            "source_commits": [],
            "add_only": True,
        },
        "engines": [
            {"name": "kani-cbmc", "path": "/verif/gv", "serves_properties": sorted(CLAIMED.keys()),
             "kind_free_text": "Kani 0.68 proof harnesses (harness/*.rs) compiled together with the real crate sources; CBMC 6.11 bounded model checking, CaDiCaL"},
            {"name": "smt-lemmas", "path": "/verif/gv/smt.py", "serves_properties": ["C14", "C19"],
             "kind_free_text": "z3 4.8.12 and cvc5 1.0 must both answer unsat on the negated arithmetic composition lemmas"},
        ],
        "checks": checks,
        "not_applicable": na,
        "notes": "Exit status 2 (no VIOLATION line) means inconclusive: a required harness reached no verdict, a cover witness was not satisfied, an unwinding "
                 "assertion failed, the injection no longer applies, or a counterexample did not reproduce natively. Repaired defects are listed in known_findings.json under 'fixed'.",
    }
    with open(os.path.join(VERIF, "MANIFEST.json"), "w") as f:
        json.dump(m, f, indent=1)
    print("MANIFEST.json: %d checks, %d not applicable" % (len(checks), len(na)))


if __name__ == "__main__":
    main()
