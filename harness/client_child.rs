// @gv-module parent=gneiss-mqtt/src/client/mod.rs name=gv_client pkg=gneiss-mqtt
//
// Child module of client/mod.rs: sees the private fields and functions of MqttClientImpl.
// Properties: C19 (reconnect back-off), C11 (no panic for accepted configurations).
use super::{MqttClientImpl, ClientImplState, ClientEvent, StopOptionsInternal, OperationOptions};
use crate::client::config::{ReconnectOptions, ExponentialBackoffJitterType, ConnectOptions, OfflineQueuePolicy,
    ProtocolMode, PostReconnectQueueDrainPolicy, MqttClientOptions};
use crate::protocol::{ProtocolState, ProtocolStateConfig, NetworkEventContext, NetworkEvent};
use crate::mqtt::{ConnackPacket, ConnectReasonCode, MqttPacket, DisconnectPacket};
use crate::error::{GneissResult, GneissError};
use crate::protocol::ProtocolStateType;
use std::sync::Arc;
use std::collections::VecDeque;
use std::time::{Duration, Instant};

include!("common.rs");

fn mk_config() -> ProtocolStateConfig {
    ProtocolStateConfig {
        connect_options: ConnectOptions::builder().build(),
        base_timestamp: zero_instant(),
        offline_queue_policy: OfflineQueuePolicy::PreserveAll,
        ping_timeout: Duration::from_millis(30000),
        outbound_alias_resolver: None,
        protocol_mode: ProtocolMode::Mqtt5,
        post_reconnect_queue_drain_policy: PostReconnectQueueDrainPolicy::None,
        max_interrupted_retries: None,
    }
}

fn mk_client(opts: ReconnectOptions, next: Duration) -> MqttClientImpl {
    MqttClientImpl {
        protocol_state: ProtocolState::new(mk_config()),
        listeners: std::collections::HashMap::new(),
        current_state: ClientImplState::PendingReconnect,
        desired_state: ClientImplState::Connected,
        desired_stop_options: None,
        packet_events: VecDeque::new(),
        last_connack: None,
        last_disconnect: None,
        last_error: None,
        last_start_connect_time: None,
        successful_connect_time: None,
        next_reconnect_period: next,
        reconnect_options: opts,
        connect_timeout: Duration::from_secs(30),
        callback_spawner: Box::new(|_, _| {}),
    }
}

/// rand 0.8 documented contract of `gen_range(0..max)`: panics iff the range is empty, otherwise any x < max.
/// The real wrapper returns `Duration::from_nanos(x as u64)`; the set of its possible results is exactly
/// { d : d.as_nanos() < max_nanos and d.as_nanos() < 2^64 }. The harness publishes the Duration it expects the
/// range to be derived from (JITTER_EXPECT); the stub checks `max_nanos == JITTER_EXPECT.as_nanos()` (structurally
/// identical multiplications, cheap) and then works on Durations only: `from_nanos` of a symbol is a division by a
/// constant and stalls the SAT back end.
static mut JITTER_EXPECT: Duration = Duration::ZERO;
fn stub_jitter(_this: &MqttClientImpl, max_nanos: u128) -> Duration {
    let expect = unsafe { JITTER_EXPECT };
    assert!(max_nanos == expect.as_nanos(), "gv: jitter range is the current period");
    assert!(expect > Duration::ZERO, "gv: rand::Rng::gen_range called with an empty range (panics: cannot sample empty range)");
    let d = any_duration();
    kani::assume(d < expect);
    kani::assume(d.as_secs() < 18_446_744_073);
    d
}

fn any_jitter() -> ExponentialBackoffJitterType {
    if kani::any() { ExponentialBackoffJitterType::None } else { ExponentialBackoffJitterType::Uniform }
}

fn any_options(jitter: ExponentialBackoffJitterType) -> ReconnectOptions {
    ReconnectOptions {
        reconnect_period_jitter: jitter,
        base_reconnect_period: any_duration(),
        max_reconnect_period: any_duration(),
        reconnect_stability_reset_period: any_duration(),
    }
}

/// oracle: min(2*x, max) in saturating arithmetic on Duration
fn oracle_next(x: Duration, max: Duration) -> Duration {
    let dbl = match x.checked_add(x) { Some(d) => d, None => Duration::MAX };
    if dbl > max { max } else { dbl }
}

// @gv props=C19 tier=quick required=yes fns=ReconnectOptions::normalize
// @gv bounds="every base/max/stability Duration (u64 seconds x 0..999999999 ns), both jitter modes"
#[kani::proof]
#[kani::unwind(3)]
fn c19_normalize() {
    let o0 = any_options(any_jitter());
    let mut o = o0;
    o.normalize();
    let (lo, hi) = if o0.base_reconnect_period <= o0.max_reconnect_period { (o0.base_reconnect_period, o0.max_reconnect_period) } else { (o0.max_reconnect_period, o0.base_reconnect_period) };
    kani::cover!(o0.base_reconnect_period > o0.max_reconnect_period, "base above max (swap)");
    kani::cover!(hi < Duration::from_secs(1), "maximum below one second (raised)");
    assert!(o.base_reconnect_period == lo);
    assert!(o.max_reconnect_period == if hi < Duration::from_secs(1) { Duration::from_secs(1) } else { hi });
    assert!(o.base_reconnect_period <= o.max_reconnect_period);
    assert!(o.max_reconnect_period >= Duration::from_secs(1));
    assert!(o.reconnect_stability_reset_period == o0.reconnect_stability_reset_period);
    assert!(o.reconnect_period_jitter == o0.reconnect_period_jitter);
}

// @gv props=C19,C11 tier=quick required=yes fns=MqttClientImpl::advance_reconnect_period,MqttClientImpl::clamp_reconnect_period
// @gv bounds="any normalized options (all Durations), any current period in [base,max], jitter None; one step from an arbitrary state of the back-off sequence"
// @gv stubs="MqttClientImpl::compute_uniform_jitter_period -> rand gen_range contract; RandomState::new -> fixed keys"
#[kani::proof]
#[kani::unwind(3)]
#[kani::stub(std::hash::RandomState::new, stub_random_state_new)]
#[kani::stub(crate::client::MqttClientImpl::compute_uniform_jitter_period, stub_jitter)]
fn c19_step_nojitter() {
    let mut opts = any_options(ExponentialBackoffJitterType::None);
    opts.normalize();
    let next = any_duration();
    kani::assume(next >= opts.base_reconnect_period && next <= opts.max_reconnect_period);
    let mut c = mk_client(opts, next);
    kani::cover!(next.as_secs() > (u64::MAX / 2), "doubling exceeds Duration::MAX");
    kani::cover!(next.as_secs() < 1000 && opts.max_reconnect_period.as_secs() > 5000, "doubling stays below max");
    let wait = c.advance_reconnect_period(); // must not panic for any accepted configuration
    assert!(wait == next);
    assert!(c.next_reconnect_period == oracle_next(next, opts.max_reconnect_period));
    assert!(c.next_reconnect_period >= opts.base_reconnect_period && c.next_reconnect_period <= opts.max_reconnect_period);
    std::mem::forget(c);
}

// @gv props=C19,C11 tier=quick required=yes fns=MqttClientImpl::advance_reconnect_period,MqttClientImpl::clamp_reconnect_period
// @gv bounds="as c19_step_nojitter with uniform jitter; the random draw is any value the rand contract allows"
// @gv stubs="MqttClientImpl::compute_uniform_jitter_period -> rand gen_range contract; RandomState::new -> fixed keys"
#[kani::proof]
#[kani::unwind(3)]
#[kani::stub(std::hash::RandomState::new, stub_random_state_new)]
#[kani::stub(crate::client::MqttClientImpl::compute_uniform_jitter_period, stub_jitter)]
fn c19_step_uniform() {
    let mut opts = any_options(ExponentialBackoffJitterType::Uniform);
    opts.normalize();
    let next = any_duration();
    kani::assume(next >= opts.base_reconnect_period && next <= opts.max_reconnect_period);
    let mut c = mk_client(opts, next);
    kani::cover!(next == Duration::ZERO, "current period is zero");
    unsafe { JITTER_EXPECT = next; }
    let wait = c.advance_reconnect_period(); // must not panic for any accepted configuration
    assert!(wait <= next);
    assert!(c.next_reconnect_period == oracle_next(next, opts.max_reconnect_period));
    std::mem::forget(c);
}

static mut NOW_S: u64 = 0;
fn stub_now() -> Instant {
    let step: u64 = kani::any();
    kani::assume(step <= 1_000_000);
    unsafe { NOW_S += step; zero_instant() + Duration::from_secs(NOW_S) }
}

// @gv props=C19 tier=quick required=yes fns=MqttClientImpl::new,MqttClientOptionsBuilder::build,ReconnectOptions::normalize,MqttClientImpl::advance_reconnect_period
// @gv bounds="every base/max Duration below 2^40 s given to the public builder, jitter None; first and second wait after construction"
// @gv stubs="Instant::now -> symbolic non-decreasing clock; RandomState::new -> fixed keys; compute_uniform_jitter_period -> rand contract"
#[kani::proof]
#[kani::unwind(3)]
#[kani::stub(std::hash::RandomState::new, stub_random_state_new)]
#[kani::stub(std::time::Instant::now, stub_now)]
#[kani::stub(crate::client::MqttClientImpl::compute_uniform_jitter_period, stub_jitter)]
fn c19_initial() {
    let base = any_duration();
    let max = any_duration();
    kani::assume(max.as_secs() < (1u64 << 40) && base.as_secs() < (1u64 << 40));
    let mut b = MqttClientOptions::builder();
    b.with_base_reconnect_period(base).with_max_reconnect_period(max).with_reconnect_period_jitter(ExponentialBackoffJitterType::None);
    let opts = b.build();
    let mut c = MqttClientImpl::new(opts, ConnectOptions::builder().build(), Box::new(|_, _| {}));
    let (lo, hi) = if base <= max { (base, max) } else { (max, base) };
    let eff_max = if hi < Duration::from_secs(1) { Duration::from_secs(1) } else { hi };
    kani::cover!(base > max, "base and max swapped");
    let w0 = c.advance_reconnect_period();
    assert!(w0 == lo); // wait before attempt k=0 is min(base*2^0, max) of the effective pair
    let w1 = c.advance_reconnect_period();
    assert!(w1 == oracle_next(lo, eff_max));
    std::mem::forget(c);
}

// ------------------------------------------------------------------------------------------------
// transition_to_state: the back-off reset rule (C19) and arithmetic on accepted configuration (C11).
// The engine entry point and the listener broadcast are replaced by recorders: what the engine does with the
// open/close events is the subject of the protocol harnesses, event delivery to listeners is C12's (declined) subject.
// ------------------------------------------------------------------------------------------------

static mut NET_EVENTS: u32 = 0;
static mut NET_LAST_OPEN_TIMEOUT: Option<Instant> = None;
static mut NET_LAST_KIND: u8 = 0; // 1 opened, 2 closed, 3 other
fn stub_handle_network_event(_this: &mut ProtocolState, ctx: &mut NetworkEventContext) -> GneissResult<()> {
    unsafe {
        NET_EVENTS += 1;
        match &ctx.event {
            NetworkEvent::ConnectionOpened(c) => { NET_LAST_KIND = 1; NET_LAST_OPEN_TIMEOUT = Some(c.establishment_timeout); }
            NetworkEvent::ConnectionClosed => { NET_LAST_KIND = 2; }
            _ => { NET_LAST_KIND = 3; }
        }
    }
    Ok(())
}

static mut EV_N: usize = 0;
static mut EV_KIND: [u8; 4] = [0; 4]; // 1 attempt, 2 success, 3 failure, 4 disconnection, 5 stopped
fn stub_broadcast(_this: &MqttClientImpl, event: Arc<ClientEvent>) {
    let k = match &*event { ClientEvent::ConnectionAttempt(_) => 1, ClientEvent::ConnectionSuccess(_) => 2, ClientEvent::ConnectionFailure(_) => 3,
                            ClientEvent::Disconnection(_) => 4, ClientEvent::Stopped(_) => 5, _ => 9 };
    unsafe { if EV_N < 4 { EV_KIND[EV_N] = k; } EV_N += 1; }
    std::mem::forget(event);
}

static mut CLOCK: Option<Instant> = None;
fn stub_now_fixed() -> Instant { unsafe { CLOCK.unwrap() } }

fn reset_rule_body(had_success: bool, connack_ok: bool) {
    let mut opts = any_options(any_jitter());
    opts.normalize();
    let next = any_duration();
    kani::assume(next >= opts.base_reconnect_period && next <= opts.max_reconnect_period);
    let mut c = mk_client(opts, next);
    c.current_state = ClientImplState::Connected;
    c.desired_state = ClientImplState::Connected;
    let t0_s: u32 = kani::any();
    let t0 = zero_instant() + Duration::from_secs(t0_s as u64);
    let lifetime = Duration::new(kani::any::<u32>() as u64, kani::any::<u32>() % 1_000_000_000);
    let now = t0 + lifetime;
    unsafe { CLOCK = Some(now); NET_EVENTS = 0; EV_N = 0; }
    c.successful_connect_time = if had_success { Some(t0) } else { None };
    c.last_connack = if connack_ok { Some(ConnackPacket { reason_code: ConnectReasonCode::Success, ..Default::default() }) } else { None };
    let r = c.transition_to_state(ClientImplState::PendingReconnect);
    assert!(r.is_ok());
    let stable = had_success && lifetime > opts.reconnect_stability_reset_period;
    kani::cover!(!had_success || stable, "connection outlived the stability period");
    kani::cover!(!had_success || (!stable && lifetime == opts.reconnect_stability_reset_period), "connection lasted exactly the stability period (no reset)");
    // the sequence restarts from the base period only after a connection stayed established LONGER than the stability period
    assert!(c.next_reconnect_period == if stable { opts.base_reconnect_period } else { next }, "gv: the back-off restarts from the base period exactly when the connection outlived the stability period");
    // ... and that connection's timestamp is consumed: it must not influence the outcome of a later attempt
    assert!(c.successful_connect_time.is_none(), "gv: the time of the last successful connection must be forgotten when the connection ends");
    assert!(c.current_state == ClientImplState::PendingReconnect);
    // the engine is told about the closed connection exactly once; exactly one outcome event is emitted
    assert!(unsafe { NET_EVENTS } == 1 && unsafe { NET_LAST_KIND } == 2);
    assert!(unsafe { EV_N } == 1 && unsafe { EV_KIND[0] } == if connack_ok { 4 } else { 3 });
    std::mem::forget(r); std::mem::forget(c);
}

// @gv props=C19 tier=quick required=yes fns=MqttClientImpl::transition_to_state
// @gv bounds="leaving Connected after a successful CONNACK: any normalized options, any current period in [base,max], any connection lifetime (seconds < 2^32 + nanoseconds), any stability period"
// @gv stubs="ProtocolState::handle_network_event -> recorder; MqttClientImpl::broadcast_event -> recorder; Instant::now -> symbolic instant; RandomState::new -> fixed keys"
// @gv timeout=900
#[kani::proof]
#[kani::unwind(4)]
#[kani::stub(std::fmt::format, stub_format)]
#[kani::stub(std::hash::RandomState::new, stub_random_state_new)]
#[kani::stub(std::time::Instant::now, stub_now_fixed)]
#[kani::stub(crate::protocol::ProtocolState::handle_network_event, stub_handle_network_event)]
#[kani::stub(crate::client::MqttClientImpl::broadcast_event, stub_broadcast)]
fn c19_reset_after_stable_connection() { reset_rule_body(true, true) }

// @gv props=C19 tier=quick required=yes fns=MqttClientImpl::transition_to_state
// @gv bounds="leaving Connected without any successful CONNACK on this connection (transport connected, CONNACK rejected or missing): the back-off is never reset"
// @gv stubs="as c19_reset_after_stable_connection"
// @gv timeout=900
#[kani::proof]
#[kani::unwind(4)]
#[kani::stub(std::fmt::format, stub_format)]
#[kani::stub(std::hash::RandomState::new, stub_random_state_new)]
#[kani::stub(std::time::Instant::now, stub_now_fixed)]
#[kani::stub(crate::protocol::ProtocolState::handle_network_event, stub_handle_network_event)]
#[kani::stub(crate::client::MqttClientImpl::broadcast_event, stub_broadcast)]
fn c19_no_reset_without_success() { reset_rule_body(false, false) }

// @gv props=C11,C07 tier=quick required=yes fns=MqttClientImpl::transition_to_state
// @gv bounds="entering Connected (transport established) with any connect timeout Duration the builder accepts and a symbolic attempt start time (< 2^32 s): no panic; the engine is told the establishment deadline start + timeout when that instant is representable"
// @gv stubs="as c19_reset_after_stable_connection"
// @gv timeout=900
#[kani::proof]
#[kani::unwind(4)]
#[kani::stub(std::fmt::format, stub_format)]
#[kani::stub(std::hash::RandomState::new, stub_random_state_new)]
#[kani::stub(std::time::Instant::now, stub_now_fixed)]
#[kani::stub(crate::protocol::ProtocolState::handle_network_event, stub_handle_network_event)]
#[kani::stub(crate::client::MqttClientImpl::broadcast_event, stub_broadcast)]
fn c11_connect_timeout_any_duration() {
    let mut opts = any_options(any_jitter());
    opts.normalize();
    let mut c = mk_client(opts, opts.base_reconnect_period);
    c.current_state = ClientImplState::Connecting;
    c.desired_state = ClientImplState::Connected;
    let start = zero_instant() + Duration::from_secs(kani::any::<u32>() as u64);
    c.last_start_connect_time = Some(start);
    c.connect_timeout = any_duration();
    unsafe { CLOCK = Some(start); NET_EVENTS = 0; NET_LAST_OPEN_TIMEOUT = None; EV_N = 0; }
    let r = c.transition_to_state(ClientImplState::Connected); // must not panic for any accepted configuration
    assert!(r.is_ok());
    assert!(unsafe { NET_EVENTS } == 1 && unsafe { NET_LAST_KIND } == 1);
    kani::cover!(start.checked_add(c.connect_timeout).is_none(), "deadline not representable");
    if let Some(deadline) = start.checked_add(c.connect_timeout) { assert!(unsafe { NET_LAST_OPEN_TIMEOUT } == Some(deadline)); }
    else { assert!(unsafe { NET_LAST_OPEN_TIMEOUT.unwrap() } > start); }
    assert!(c.current_state == ClientImplState::Connected);
    std::mem::forget(r); std::mem::forget(c);
}

// ------------------------------------------------------------------------------------------------
// C12 (decision/transition level only): which transition is pursued, and which lifecycle events one transition emits
// ------------------------------------------------------------------------------------------------

fn any_client_state() -> ClientImplState {
    match kani::any::<u8>() % 5 { 0 => ClientImplState::Stopped, 1 => ClientImplState::Connecting, 2 => ClientImplState::Connected, 3 => ClientImplState::PendingReconnect, _ => ClientImplState::Shutdown }
}

fn stop_options(kind: u8) -> Option<StopOptionsInternal> {
    match kind { 0 => None, 1 => Some(StopOptionsInternal { disconnect: None }),
                 _ => Some(StopOptionsInternal { disconnect: Some(Box::new(MqttPacket::Disconnect(DisconnectPacket { ..Default::default() }))) }) }
}

fn decision_body(stop_kind: u8) {
    let mut opts = any_options(any_jitter());
    opts.normalize();
    let mut c = mk_client(opts, opts.base_reconnect_period);
    c.current_state = any_client_state();
    c.desired_state = match kani::any::<u8>() % 3 { 0 => ClientImplState::Stopped, 1 => ClientImplState::Connected, _ => ClientImplState::Shutdown };
    c.desired_stop_options = stop_options(stop_kind);
    let got = c.compute_optional_state_transition();
    let wants_connection = c.desired_state == ClientImplState::Connected;
    let expect = match c.current_state {
        ClientImplState::Stopped => match c.desired_state { ClientImplState::Connected => Some(ClientImplState::Connecting), ClientImplState::Shutdown => Some(ClientImplState::Shutdown), _ => None },
        // a stop (or close) request is pursued at once while connecting or waiting to reconnect ...
        ClientImplState::Connecting | ClientImplState::PendingReconnect => if wants_connection { None } else { Some(ClientImplState::Stopped) },
        // ... and while connected, unless a user-requested DISCONNECT still has to be written first
        ClientImplState::Connected => if wants_connection || stop_kind == 2 { None } else { Some(ClientImplState::Stopped) },
        // close is terminal
        _ => None,
    };
    kani::cover!(got == Some(ClientImplState::Stopped), "a stop is pursued");
    assert!(got == expect, "gv: the transition pursued must follow the desired state (stop always stops, close is terminal)");
    std::mem::forget(c);
}

/// one transition and the lifecycle events it emits; engine entry point and listener broadcast recorded
fn transition_events_body(old: ClientImplState, requested: ClientImplState, desired: ClientImplState, connack_ok: bool) {
    let mut opts = any_options(any_jitter());
    opts.normalize();
    let mut c = mk_client(opts, opts.base_reconnect_period);
    c.current_state = old;
    c.desired_state = desired;
    let start = zero_instant() + Duration::from_secs(kani::any::<u32>() as u64);
    c.last_start_connect_time = Some(start);
    // when the transition does not leave Connected, whatever an EARLIER connection left behind is still there
    let stale = old != ClientImplState::Connected;
    c.last_connack = if connack_ok || stale { Some(ConnackPacket { reason_code: ConnectReasonCode::Success, ..Default::default() }) } else { None };
    c.successful_connect_time = if connack_ok { Some(start) } else { None };
    unsafe { CLOCK = Some(start + Duration::from_secs(kani::any::<u16>() as u64)); NET_EVENTS = 0; EV_N = 0; }
    let r = c.transition_to_state(requested);
    assert!(r.is_ok());
    if requested == ClientImplState::Connecting {
        // a new attempt starts from a clean slate: the outcome of this attempt must not be judged by an earlier connection's CONNACK
        assert!(c.last_connack.is_none() && c.last_error.is_none() && c.last_disconnect.is_none() && c.packet_events.is_empty() && c.desired_stop_options.is_none(),
                "gv: a new connection attempt must forget the previous connection's CONNACK, error and DISCONNECT");
    }
    let n = unsafe { EV_N };
    let ev = unsafe { EV_KIND };
    // effective target: a reconnect wait that is no longer wanted becomes Stopped; Stopped becomes Shutdown when close was requested
    let mut target = requested;
    if target == ClientImplState::PendingReconnect && desired != ClientImplState::Connected { target = ClientImplState::Stopped; }
    if target == ClientImplState::Stopped && desired == ClientImplState::Shutdown { target = ClientImplState::Shutdown; }
    assert!(c.current_state == target);
    let mut want: [u8; 4] = [0; 4];
    let mut k = 0;
    // every attempt is reported ...
    if target == ClientImplState::Connecting { want[k] = 1; k += 1; }
    // ... and followed by exactly one outcome: a failure, or (after a success) exactly one disconnection
    if old == ClientImplState::Connecting && target != ClientImplState::Connected { want[k] = 3; k += 1; }
    if old == ClientImplState::Connected { want[k] = if connack_ok { 4 } else { 3 }; k += 1; }
    // a stop that is reached is announced once
    if target == ClientImplState::Stopped { want[k] = 5; k += 1; }
    assert!(n == k, "gv: a transition emits exactly its lifecycle events");
    let mut i = 0;
    while i < k { assert!(ev[i] == want[i], "gv: lifecycle events in order: attempt, outcome, stopped"); i += 1; }
    std::mem::forget(r); std::mem::forget(c);
}

// @gv props=C12 tier=quick required=yes fns=MqttClientImpl::compute_optional_state_transition
// @gv bounds="every current state x desired state, no stop options"
#[kani::proof]
#[kani::unwind(4)]
#[kani::stub(std::fmt::format, stub_format)]
#[kani::stub(std::hash::RandomState::new, stub_random_state_new)]
fn c12_decision_no_stop_options() { decision_body(0) }

// @gv props=C12 tier=quick required=yes fns=MqttClientImpl::compute_optional_state_transition
// @gv bounds="every current state x desired state, stop requested without a DISCONNECT packet"
#[kani::proof]
#[kani::unwind(4)]
#[kani::stub(std::fmt::format, stub_format)]
#[kani::stub(std::hash::RandomState::new, stub_random_state_new)]
fn c12_decision_stop_plain() { decision_body(1) }

// @gv props=C12 tier=quick required=yes fns=MqttClientImpl::compute_optional_state_transition
// @gv bounds="every current state x desired state, stop requested with a DISCONNECT packet still to be written"
#[kani::proof]
#[kani::unwind(4)]
#[kani::stub(std::fmt::format, stub_format)]
#[kani::stub(std::hash::RandomState::new, stub_random_state_new)]
fn c12_decision_stop_with_disconnect() { decision_body(2) }

// @gv props=C12 tier=quick required=yes fns=MqttClientImpl::transition_to_state,MqttClientImpl::reset_state_for_new_connection,MqttClientImpl::emit_connection_failure_event,MqttClientImpl::emit_disconnection_event
// @gv bounds="one transition Stopped -> Connecting with desired state Connected (CONNACK success on this connection: false); symbolic clock, options and connect timeout"
// @gv stubs="ProtocolState::handle_network_event -> recorder; MqttClientImpl::broadcast_event -> recorder; Instant::now -> symbolic instant"
// @gv timeout=900
#[kani::proof]
#[kani::unwind(4)]
#[kani::stub(std::fmt::format, stub_format)]
#[kani::stub(std::hash::RandomState::new, stub_random_state_new)]
#[kani::stub(std::time::Instant::now, stub_now_fixed)]
#[kani::stub(crate::protocol::ProtocolState::handle_network_event, stub_handle_network_event)]
#[kani::stub(crate::client::MqttClientImpl::broadcast_event, stub_broadcast)]
fn c12_transition_stopped_connecting() { transition_events_body(ClientImplState::Stopped, ClientImplState::Connecting, ClientImplState::Connected, false) }

// @gv props=C12 tier=quick required=yes fns=MqttClientImpl::transition_to_state,MqttClientImpl::reset_state_for_new_connection,MqttClientImpl::emit_connection_failure_event,MqttClientImpl::emit_disconnection_event
// @gv bounds="one transition Connecting -> Connected with desired state Connected (CONNACK success on this connection: false); symbolic clock, options and connect timeout"
// @gv stubs="ProtocolState::handle_network_event -> recorder; MqttClientImpl::broadcast_event -> recorder; Instant::now -> symbolic instant"
// @gv timeout=900
#[kani::proof]
#[kani::unwind(4)]
#[kani::stub(std::fmt::format, stub_format)]
#[kani::stub(std::hash::RandomState::new, stub_random_state_new)]
#[kani::stub(std::time::Instant::now, stub_now_fixed)]
#[kani::stub(crate::protocol::ProtocolState::handle_network_event, stub_handle_network_event)]
#[kani::stub(crate::client::MqttClientImpl::broadcast_event, stub_broadcast)]
fn c12_transition_connecting_connected() { transition_events_body(ClientImplState::Connecting, ClientImplState::Connected, ClientImplState::Connected, false) }

// @gv props=C12 tier=quick required=yes fns=MqttClientImpl::transition_to_state,MqttClientImpl::reset_state_for_new_connection,MqttClientImpl::emit_connection_failure_event,MqttClientImpl::emit_disconnection_event
// @gv bounds="one transition Connecting -> PendingReconnect with desired state Connected (CONNACK success on this connection: false); symbolic clock, options and connect timeout"
// @gv stubs="ProtocolState::handle_network_event -> recorder; MqttClientImpl::broadcast_event -> recorder; Instant::now -> symbolic instant"
// @gv timeout=900
#[kani::proof]
#[kani::unwind(4)]
#[kani::stub(std::fmt::format, stub_format)]
#[kani::stub(std::hash::RandomState::new, stub_random_state_new)]
#[kani::stub(std::time::Instant::now, stub_now_fixed)]
#[kani::stub(crate::protocol::ProtocolState::handle_network_event, stub_handle_network_event)]
#[kani::stub(crate::client::MqttClientImpl::broadcast_event, stub_broadcast)]
fn c12_transition_connecting_failed() { transition_events_body(ClientImplState::Connecting, ClientImplState::PendingReconnect, ClientImplState::Connected, false) }

// @gv props=C12 tier=quick required=yes fns=MqttClientImpl::transition_to_state,MqttClientImpl::reset_state_for_new_connection,MqttClientImpl::emit_connection_failure_event,MqttClientImpl::emit_disconnection_event
// @gv bounds="one transition Connecting -> Stopped with desired state Stopped (CONNACK success on this connection: false); symbolic clock, options and connect timeout"
// @gv stubs="ProtocolState::handle_network_event -> recorder; MqttClientImpl::broadcast_event -> recorder; Instant::now -> symbolic instant"
// @gv timeout=900
#[kani::proof]
#[kani::unwind(4)]
#[kani::stub(std::fmt::format, stub_format)]
#[kani::stub(std::hash::RandomState::new, stub_random_state_new)]
#[kani::stub(std::time::Instant::now, stub_now_fixed)]
#[kani::stub(crate::protocol::ProtocolState::handle_network_event, stub_handle_network_event)]
#[kani::stub(crate::client::MqttClientImpl::broadcast_event, stub_broadcast)]
fn c12_transition_connecting_stop_requested() { transition_events_body(ClientImplState::Connecting, ClientImplState::Stopped, ClientImplState::Stopped, false) }

// @gv props=C12 tier=quick required=yes fns=MqttClientImpl::transition_to_state,MqttClientImpl::reset_state_for_new_connection,MqttClientImpl::emit_connection_failure_event,MqttClientImpl::emit_disconnection_event
// @gv bounds="one transition Connected -> PendingReconnect with desired state Connected (CONNACK success on this connection: true); symbolic clock, options and connect timeout"
// @gv stubs="ProtocolState::handle_network_event -> recorder; MqttClientImpl::broadcast_event -> recorder; Instant::now -> symbolic instant"
// @gv timeout=900
#[kani::proof]
#[kani::unwind(4)]
#[kani::stub(std::fmt::format, stub_format)]
#[kani::stub(std::hash::RandomState::new, stub_random_state_new)]
#[kani::stub(std::time::Instant::now, stub_now_fixed)]
#[kani::stub(crate::protocol::ProtocolState::handle_network_event, stub_handle_network_event)]
#[kani::stub(crate::client::MqttClientImpl::broadcast_event, stub_broadcast)]
fn c12_transition_connected_lost() { transition_events_body(ClientImplState::Connected, ClientImplState::PendingReconnect, ClientImplState::Connected, true) }

// @gv props=C12 tier=quick required=yes fns=MqttClientImpl::transition_to_state,MqttClientImpl::reset_state_for_new_connection,MqttClientImpl::emit_connection_failure_event,MqttClientImpl::emit_disconnection_event
// @gv bounds="one transition Connected -> PendingReconnect with desired state Connected (CONNACK success on this connection: false); symbolic clock, options and connect timeout"
// @gv stubs="ProtocolState::handle_network_event -> recorder; MqttClientImpl::broadcast_event -> recorder; Instant::now -> symbolic instant"
// @gv timeout=900
#[kani::proof]
#[kani::unwind(4)]
#[kani::stub(std::fmt::format, stub_format)]
#[kani::stub(std::hash::RandomState::new, stub_random_state_new)]
#[kani::stub(std::time::Instant::now, stub_now_fixed)]
#[kani::stub(crate::protocol::ProtocolState::handle_network_event, stub_handle_network_event)]
#[kani::stub(crate::client::MqttClientImpl::broadcast_event, stub_broadcast)]
fn c12_transition_connected_rejected() { transition_events_body(ClientImplState::Connected, ClientImplState::PendingReconnect, ClientImplState::Connected, false) }

// @gv props=C12 tier=quick required=yes fns=MqttClientImpl::transition_to_state,MqttClientImpl::reset_state_for_new_connection,MqttClientImpl::emit_connection_failure_event,MqttClientImpl::emit_disconnection_event
// @gv bounds="one transition Connected -> PendingReconnect with desired state Stopped (CONNACK success on this connection: true); symbolic clock, options and connect timeout"
// @gv stubs="ProtocolState::handle_network_event -> recorder; MqttClientImpl::broadcast_event -> recorder; Instant::now -> symbolic instant"
// @gv timeout=900
#[kani::proof]
#[kani::unwind(4)]
#[kani::stub(std::fmt::format, stub_format)]
#[kani::stub(std::hash::RandomState::new, stub_random_state_new)]
#[kani::stub(std::time::Instant::now, stub_now_fixed)]
#[kani::stub(crate::protocol::ProtocolState::handle_network_event, stub_handle_network_event)]
#[kani::stub(crate::client::MqttClientImpl::broadcast_event, stub_broadcast)]
fn c12_transition_connected_stop_requested() { transition_events_body(ClientImplState::Connected, ClientImplState::PendingReconnect, ClientImplState::Stopped, true) }

// @gv props=C12 tier=quick required=yes fns=MqttClientImpl::transition_to_state,MqttClientImpl::reset_state_for_new_connection,MqttClientImpl::emit_connection_failure_event,MqttClientImpl::emit_disconnection_event
// @gv bounds="one transition Connected -> PendingReconnect with desired state Shutdown (CONNACK success on this connection: true); symbolic clock, options and connect timeout"
// @gv stubs="ProtocolState::handle_network_event -> recorder; MqttClientImpl::broadcast_event -> recorder; Instant::now -> symbolic instant"
// @gv timeout=900
#[kani::proof]
#[kani::unwind(4)]
#[kani::stub(std::fmt::format, stub_format)]
#[kani::stub(std::hash::RandomState::new, stub_random_state_new)]
#[kani::stub(std::time::Instant::now, stub_now_fixed)]
#[kani::stub(crate::protocol::ProtocolState::handle_network_event, stub_handle_network_event)]
#[kani::stub(crate::client::MqttClientImpl::broadcast_event, stub_broadcast)]
fn c12_transition_connected_close_requested() { transition_events_body(ClientImplState::Connected, ClientImplState::PendingReconnect, ClientImplState::Shutdown, true) }

// @gv props=C12 tier=quick required=yes fns=MqttClientImpl::transition_to_state,MqttClientImpl::reset_state_for_new_connection,MqttClientImpl::emit_connection_failure_event,MqttClientImpl::emit_disconnection_event
// @gv bounds="one transition PendingReconnect -> Connecting with desired state Connected (CONNACK success on this connection: false); symbolic clock, options and connect timeout"
// @gv stubs="ProtocolState::handle_network_event -> recorder; MqttClientImpl::broadcast_event -> recorder; Instant::now -> symbolic instant"
// @gv timeout=900
#[kani::proof]
#[kani::unwind(4)]
#[kani::stub(std::fmt::format, stub_format)]
#[kani::stub(std::hash::RandomState::new, stub_random_state_new)]
#[kani::stub(std::time::Instant::now, stub_now_fixed)]
#[kani::stub(crate::protocol::ProtocolState::handle_network_event, stub_handle_network_event)]
#[kani::stub(crate::client::MqttClientImpl::broadcast_event, stub_broadcast)]
fn c12_transition_pendingreconnect_retry() { transition_events_body(ClientImplState::PendingReconnect, ClientImplState::Connecting, ClientImplState::Connected, false) }

// @gv props=C12 tier=quick required=yes fns=MqttClientImpl::transition_to_state,MqttClientImpl::reset_state_for_new_connection,MqttClientImpl::emit_connection_failure_event,MqttClientImpl::emit_disconnection_event
// @gv bounds="one transition PendingReconnect -> Stopped with desired state Stopped (CONNACK success on this connection: false); symbolic clock, options and connect timeout"
// @gv stubs="ProtocolState::handle_network_event -> recorder; MqttClientImpl::broadcast_event -> recorder; Instant::now -> symbolic instant"
// @gv timeout=900
#[kani::proof]
#[kani::unwind(4)]
#[kani::stub(std::fmt::format, stub_format)]
#[kani::stub(std::hash::RandomState::new, stub_random_state_new)]
#[kani::stub(std::time::Instant::now, stub_now_fixed)]
#[kani::stub(crate::protocol::ProtocolState::handle_network_event, stub_handle_network_event)]
#[kani::stub(crate::client::MqttClientImpl::broadcast_event, stub_broadcast)]
fn c12_transition_pendingreconnect_stop() { transition_events_body(ClientImplState::PendingReconnect, ClientImplState::Stopped, ClientImplState::Stopped, false) }

static mut ENGINE_FAILED: u32 = 0;
fn stub_engine_fail(_this: &mut ProtocolState, _id: u64, error: GneissError) -> GneissResult<()> { unsafe { ENGINE_FAILED += 1; } std::mem::forget(error); Ok(()) }

fn stop_request_body(engine_state: ProtocolStateType) {
    let mut opts = any_options(any_jitter());
    opts.normalize();
    let mut c = mk_client(opts, opts.base_reconnect_period);
    c.current_state = ClientImplState::Connected;      // transport established
    c.desired_state = ClientImplState::Connected;
    c.protocol_state.state = engine_state;             // CONNACK received (Connected) or still awaited (PendingConnack)
    unsafe { CLOCK = Some(zero_instant() + Duration::from_secs(kani::any::<u32>() as u64)); ENGINE_FAILED = 0; }
    c.handle_incoming_operation(OperationOptions::Stop(StopOptionsInternal { disconnect: Some(Box::new(MqttPacket::Disconnect(DisconnectPacket { ..Default::default() }))) }));
    assert!(c.desired_state == ClientImplState::Stopped);
    let pursued = c.compute_optional_state_transition() == Some(ClientImplState::Stopped);
    let disconnect_queued = !c.protocol_state.high_priority_operation_queue.is_empty();
    // a stop request always leads to Stopped: either the client leaves the connection now, or a DISCONNECT is on its way out
    // (its write completion ends the connection); it must never be left waiting for a DISCONNECT that was thrown away
    assert!(pursued || disconnect_queued, "gv: a stop request with a DISCONNECT packet must still stop the client when it arrives during the CONNECT/CONNACK handshake");
    std::mem::forget(c);
}

// @gv props=C12 tier=thorough required=yes fns=MqttClientImpl::handle_incoming_operation,MqttClientImpl::compute_optional_state_transition,ProtocolState::handle_user_event
// @gv bounds="stop request carrying a DISCONNECT packet while the MQTT connection is established (engine Connected)"
// @gv stubs="ProtocolState::complete_operation_as_failure -> recorder; Instant::now -> symbolic instant"
// @gv timeout=1500 mem=20
#[kani::proof]
#[kani::unwind(4)]
#[kani::stub(std::fmt::format, stub_format)]
#[kani::stub(std::hash::RandomState::new, stub_random_state_new)]
#[kani::stub(std::time::Instant::now, stub_now_fixed)]
#[kani::stub(crate::protocol::ProtocolState::complete_operation_as_failure, stub_engine_fail)]
fn c12_stop_with_disconnect_connected() { stop_request_body(ProtocolStateType::Connected) }

// @gv props=C12 tier=thorough required=yes fns=MqttClientImpl::handle_incoming_operation,MqttClientImpl::compute_optional_state_transition,ProtocolState::handle_user_event
// @gv bounds="stop request carrying a DISCONNECT packet during the CONNECT/CONNACK handshake (transport up, engine PendingConnack)"
// @gv stubs="ProtocolState::complete_operation_as_failure -> recorder; Instant::now -> symbolic instant"
// @gv timeout=1500 mem=20
#[kani::proof]
#[kani::unwind(4)]
#[kani::stub(std::fmt::format, stub_format)]
#[kani::stub(std::hash::RandomState::new, stub_random_state_new)]
#[kani::stub(std::time::Instant::now, stub_now_fixed)]
#[kani::stub(crate::protocol::ProtocolState::complete_operation_as_failure, stub_engine_fail)]
fn c12_stop_with_disconnect_during_handshake() { stop_request_body(ProtocolStateType::PendingConnack) }
