// @gv-module parent=gneiss-mqtt/src/mqtt/connect.rs name=gv_enc_connect pkg=gneiss-mqtt
//
// Child module of mqtt/connect.rs. C02 / C07: CONNECT on the wire vs the OASIS layout (MQTT5 3.1, MQTT 3.1.1 3.1).
use super::{write_connect_encoding_steps5, write_connect_encoding_steps311, get_connect_packet_client_id, get_connect_packet_username,
    get_connect_packet_password, get_connect_packet_user_property, get_connect_packet_will_topic, get_connect_packet_will_payload,
    get_connect_packet_will_content_type, get_connect_packet_will_response_topic, get_connect_packet_will_correlation_data,
    get_connect_packet_will_user_property, get_connect_protocol_bytes5, get_connect_protocol_bytes311,
    get_connect_packet_authentication_method, get_connect_packet_authentication_data};
use crate::encode::{EncodingStep, EncodingContext};
use crate::alias::OutboundAliasResolution;
use crate::mqtt::{MqttPacket, ProtocolVersion, ConnectPacket, PublishPacket, UserProperty, QualityOfService};
use std::collections::VecDeque;

include!("common.rs");
include!("encode_common.rs");

const F_PROTO5: u8 = 1; const F_PROTO311: u8 = 2; const F_CLIENT_ID: u8 = 3; const F_USERNAME: u8 = 4; const F_PASSWORD: u8 = 5;
const F_UP_NAME: u8 = 6; const F_UP_VALUE: u8 = 7; const F_WILL_TOPIC: u8 = 8; const F_WILL_PAYLOAD: u8 = 9; const F_WILL_CT: u8 = 10;
const F_WILL_RT: u8 = 11; const F_WILL_CD: u8 = 12; const F_WILL_UP_NAME: u8 = 13; const F_WILL_UP_VALUE: u8 = 14; const F_AUTH_METHOD: u8 = 15; const F_AUTH_DATA: u8 = 16;

fn field_of(step: &EncodingStep) -> (u8, usize) {
    match step {
        EncodingStep::StringSlice(g, _) => {
            let a = *g as usize;
            if a == get_connect_packet_client_id as fn(&MqttPacket) -> &str as usize { (F_CLIENT_ID, 0) }
            else if a == get_connect_packet_username as fn(&MqttPacket) -> &str as usize { (F_USERNAME, 0) }
            else if a == get_connect_packet_will_topic as fn(&MqttPacket) -> &str as usize { (F_WILL_TOPIC, 0) }
            else if a == get_connect_packet_will_content_type as fn(&MqttPacket) -> &str as usize { (F_WILL_CT, 0) }
            else if a == get_connect_packet_will_response_topic as fn(&MqttPacket) -> &str as usize { (F_WILL_RT, 0) }
            else if a == get_connect_packet_authentication_method as fn(&MqttPacket) -> &str as usize { (F_AUTH_METHOD, 0) }
            else { (0, 0) }
        }
        EncodingStep::BytesSlice(g, _) => {
            let a = *g as usize;
            if a == get_connect_protocol_bytes5 as fn(&MqttPacket) -> &[u8] as usize { (F_PROTO5, 0) }
            else if a == get_connect_protocol_bytes311 as fn(&MqttPacket) -> &[u8] as usize { (F_PROTO311, 0) }
            else if a == get_connect_packet_password as fn(&MqttPacket) -> &[u8] as usize { (F_PASSWORD, 0) }
            else if a == get_connect_packet_will_payload as fn(&MqttPacket) -> &[u8] as usize { (F_WILL_PAYLOAD, 0) }
            else if a == get_connect_packet_will_correlation_data as fn(&MqttPacket) -> &[u8] as usize { (F_WILL_CD, 0) }
            else if a == get_connect_packet_authentication_data as fn(&MqttPacket) -> &[u8] as usize { (F_AUTH_DATA, 0) }
            else { (0, 0) }
        }
        EncodingStep::UserPropertyName(g, i, _) => {
            let a = *g as usize;
            if a == get_connect_packet_user_property as fn(&MqttPacket, usize) -> &UserProperty as usize { (F_UP_NAME, *i) }
            else if a == get_connect_packet_will_user_property as fn(&MqttPacket, usize) -> &UserProperty as usize { (F_WILL_UP_NAME, *i) } else { (0, 0) }
        }
        EncodingStep::UserPropertyValue(g, i, _) => {
            let a = *g as usize;
            if a == get_connect_packet_user_property as fn(&MqttPacket, usize) -> &UserProperty as usize { (F_UP_VALUE, *i) }
            else if a == get_connect_packet_will_user_property as fn(&MqttPacket, usize) -> &UserProperty as usize { (F_WILL_UP_VALUE, *i) } else { (0, 0) }
        }
        _ => (0, 0),
    }
}

/// the protocol name/level bytes are constants of the specification: "MQTT" + level 5 / 4 (3.1.2.1, 3.1.2.2)
fn check_protocol_bytes() {
    let p = MqttPacket::Connect(ConnectPacket { ..Default::default() });
    let b5 = get_connect_protocol_bytes5(&p);
    let b4 = get_connect_protocol_bytes311(&p);
    assert!(b5.len() == 7 && b5[0] == 0 && b5[1] == 4 && b5[2] == b'M' && b5[3] == b'Q' && b5[4] == b'T' && b5[5] == b'T' && b5[6] == 5);
    assert!(b4.len() == 7 && b4[0] == 0 && b4[1] == 4 && b4[2] == b'M' && b4[3] == b'Q' && b4[4] == b'T' && b4[5] == b'T' && b4[6] == 4);
    std::mem::forget(p);
}

/// shape bits: 1 = client id, 2 = username + password, 4 = will (topic + payload + delay interval), 8 = numeric properties A
/// (session expiry, receive maximum, maximum packet size), 16 = numeric properties B (alias maximum, request response / problem information), 32 = one user property,
/// 64 = the will also carries a 120-byte response topic and 8 bytes of correlation data (will property section of 134 bytes: two-byte VBI)
fn connect_body(v5: bool, shape: u8, cap: usize) {
    check_protocol_bytes();
    let ka: u16 = kani::any();
    let clean: bool = kani::any();
    let (sei, rm, mps, tam, wdi): (u32, u16, u32, u16, u32) = (kani::any(), kani::any(), kani::any(), kani::any(), kani::any());
    let wq: u8 = kani::any(); kani::assume(wq < 3);
    let wr: bool = kani::any();
    let (has_id, has_up, has_will, pa, pb, has_prop) = (shape & 1 != 0, shape & 2 != 0, shape & 4 != 0, shape & 8 != 0, shape & 16 != 0, shape & 32 != 0);
    let big_will = shape & 64 != 0;
    let will = PublishPacket { topic: "w/t".to_string(), qos: qos_of(wq), retain: wr, payload: Some(vec![9u8; 2]),
        response_topic: if big_will { Some(unsafe { String::from_utf8_unchecked(vec![b'r'; 120]) }) } else { None },
        correlation_data: if big_will { Some(vec![3u8; 8]) } else { None },
        ..Default::default() };
    let inner = ConnectPacket {
        keep_alive_interval_seconds: ka, clean_start: clean,
        client_id: if has_id { Some("cid".to_string()) } else { None },
        username: if has_up { Some("us".to_string()) } else { None },
        password: if has_up { Some(vec![1u8; 4]) } else { None },
        session_expiry_interval_seconds: if pa { Some(sei) } else { None },
        receive_maximum: if pa { Some(rm) } else { None },
        maximum_packet_size_bytes: if pa { Some(mps) } else { None },
        topic_alias_maximum: if pb { Some(tam) } else { None },
        request_response_information: if pb { Some(true) } else { None },
        request_problem_information: if pb { Some(false) } else { None },
        will_delay_interval_seconds: if has_will && !big_will { Some(wdi) } else { None },   // big will: 123 bytes before the correlation data, 134 with it
        will: if has_will { Some(will) } else { None },
        user_properties: if has_prop { Some(vec![UserProperty { name: "n".to_string(), value: "vv".to_string() }]) } else { None },
        ..Default::default()
    };
    let c = ctx(if v5 { ProtocolVersion::Mqtt5 } else { ProtocolVersion::Mqtt311 }, OutboundAliasResolution::default());
    let mut steps: VecDeque<EncodingStep> = VecDeque::with_capacity(cap);
    let r = if v5 { write_connect_encoding_steps5(&inner, &c, &mut steps) } else { write_connect_encoding_steps311(&inner, &c, &mut steps) };
    assert!(r.is_ok());
    let mut w = Layout::new();
    w.u8(0x10);
    let rl = w.hole();
    w.raw(if v5 { F_PROTO5 } else { F_PROTO311 }, 0, 7);
    // connect flags 3.1.2.3: bit1 clean start, bit2 will flag, bits3-4 will QoS, bit5 will retain, bit6 password, bit7 user name
    w.u8((if clean { 2 } else { 0 }) | (if has_will { 4 | (wq << 3) | (if wr { 32 } else { 0 }) } else { 0 }) | (if has_up { 64 | 128 } else { 0 }));
    w.u16(ka);
    if v5 {
        let pl = w.hole();
        w.in_props = true;
        if pa { w.u8(17); w.u32(sei); w.u8(33); w.u16(rm); w.u8(39); w.u32(mps); }
        if pb { w.u8(34); w.u16(tam); w.u8(25); w.u8(1); w.u8(23); w.u8(0); }
        if has_prop { w.u8(38); w.lp(F_UP_NAME, 0, 1); w.lp(F_UP_VALUE, 0, 2); }
        w.in_props = false;
        let plen = w.bytes_from(pl + 1, true);
        w.fill(pl, plen);
    }
    if has_id { w.lp(F_CLIENT_ID, 0, 3); } else { w.u16(0); }
    if has_will {
        if v5 {
            let wl = w.hole();
            let start = w.n;
            if !big_will { w.u8(24); w.u32(wdi); }
            if big_will { w.u8(8); w.lp(F_WILL_RT, 0, 120); w.u8(9); w.lp(F_WILL_CD, 0, 8); }
            let mut t = 0; let mut i = start; while i < w.n { t += w.it[i].size; i += 1; }
            w.fill(wl, t);
        }
        w.lp(F_WILL_TOPIC, 0, 3);
        w.lp(F_WILL_PAYLOAD, 0, 2);
    }
    if has_up { w.lp(F_USERNAME, 0, 2); w.lp(F_PASSWORD, 0, 4); }
    let rlen = w.bytes_from(rl + 1, false);
    w.fill(rl, rlen);
    kani::cover!(clean, "clean start set");
    check_steps(&mut steps, &w, field_of);
    std::mem::forget(r); std::mem::forget(steps); std::mem::forget(inner);
}

// @gv props=C02,C07 tier=quick required=yes fns=write_connect_encoding_steps5,compute_connect_packet_length_properties5,compute_connect_flags
// @gv bounds="CONNECT/MQTT5 with client id, user name and password, no properties; symbolic keep-alive and clean start"
// @gv timeout=1200 mem=5
#[kani::proof]
#[kani::unwind(16)]
#[kani::stub(std::fmt::format, stub_format)]
fn c02_connect5_credentials() { connect_body(true, 1 | 2, 16) }

// @gv props=C02,C07 tier=quick required=yes fns=write_connect_encoding_steps5,compute_connect_packet_length_properties5,compute_connect_flags
// @gv bounds="CONNECT/MQTT5 WITHOUT client id (zero-length id) with session expiry, receive maximum and maximum packet size (symbolic values)"
// @gv timeout=1200 mem=5
#[kani::proof]
#[kani::unwind(16)]
#[kani::stub(std::fmt::format, stub_format)]
fn c02_connect5_props_a() { connect_body(true, 8, 16) }

// @gv props=C02,C07 tier=quick required=yes fns=write_connect_encoding_steps5,compute_connect_packet_length_properties5
// @gv bounds="CONNECT/MQTT5 with client id, topic alias maximum (symbolic), request response information = 1, request problem information = 0, one user property"
// @gv timeout=1200 mem=5
#[kani::proof]
#[kani::unwind(22)]
#[kani::stub(std::fmt::format, stub_format)]
fn c02_connect5_props_b() { connect_body(true, 1 | 16 | 32, 32) }

// @gv props=C02,C07 tier=quick required=yes fns=write_connect_encoding_steps5,compute_connect_packet_length_properties5,compute_connect_flags
// @gv bounds="CONNECT/MQTT5 with client id and a will (topic, payload, will delay interval; symbolic will QoS and retain)"
// @gv timeout=1200 mem=5
#[kani::proof]
#[kani::unwind(18)]
#[kani::stub(std::fmt::format, stub_format)]
fn c02_connect5_will() { connect_body(true, 1 | 4, 16) }

// @gv props=C02,C07 tier=quick required=yes fns=write_connect_encoding_steps311,compute_connect_packet_length_properties311,compute_connect_flags
// @gv bounds="CONNECT/MQTT3.1.1 with client id, will, user name, password while every MQTT5-only property is set: none of them may reach the wire"
// @gv timeout=1200 mem=5
#[kani::proof]
#[kani::unwind(18)]
#[kani::stub(std::fmt::format, stub_format)]
fn c02_connect311_full() { connect_body(false, 1 | 2 | 4 | 8 | 16 | 32, 16) }

// @gv props=C02,C07 tier=quick required=yes fns=write_connect_encoding_steps5,compute_connect_packet_length_properties5
// @gv bounds="CONNECT/MQTT5 with client id and a will whose property section (120-byte response topic = 123 bytes, plus 8 bytes of correlation data = 134 bytes) crosses the one-byte Variable Byte Integer boundary"
// @gv timeout=1200 mem=5
#[kani::proof]
#[kani::unwind(24)]
#[kani::stub(std::fmt::format, stub_format)]
fn c02_connect5_will_vbi_boundary() { connect_body(true, 1 | 4 | 64, 32) }
