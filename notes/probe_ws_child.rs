use super::MessageCursor;

#[kani::proof]
#[kani::unwind(8)]
fn probew_cursor_read() {
    let data: [u8; 6] = kani::any();
    let index: usize = kani::any(); kani::assume(index <= 6);
    let mut cur = MessageCursor { data: data.to_vec(), index };
    let mut dest: [u8; 4] = [0; 4];
    let dl: usize = kani::any(); kani::assume(dl <= 4);
    let n = cur.read(&mut dest[..dl]);
    let remaining = 6 - index;
    let expect = if remaining < dl { remaining } else { dl };
    assert!(n == expect);
    assert!(cur.index == index + n);
    let mut i = 0;
    while i < n { assert!(dest[i] == data[index + i]); i += 1; }
    std::mem::forget(cur);
}
