#!/usr/bin/env python3
"""./check <property> [--tier quick|thorough] | --replay <file> | --list | --selftest models

Exit status: 0 = every obligation explored held (known findings are printed, not alarms)
             1 = a violation that reproduces natively against the real code (VIOLATION line printed)
             2 = inconclusive (build/injection failure, required harness without a verdict,
                 unsatisfied cover, failed unwinding assertion, counterexample that does not reproduce)
"""
import argparse
import atexit
import json
import os
import random
import re
import shutil
import signal
import sys
import time

HERE = os.path.dirname(os.path.abspath(__file__))
VERIF = os.path.dirname(HERE)
sys.path.insert(0, VERIF)

from gv import inject, kani, registry, smt  # noqa: E402

KNOWN_FINDINGS = os.path.join(VERIF, "known_findings.json")
_cleanup_dirs = []


def _cleanup():
    if os.environ.get("GV_KEEP"):
        return
    for d in _cleanup_dirs:
        shutil.rmtree(d, ignore_errors=True)


atexit.register(_cleanup)
for _s in (signal.SIGTERM, signal.SIGINT, signal.SIGHUP):
    signal.signal(_s, lambda *_: sys.exit(2))


def load_known():
    try:
        return json.load(open(KNOWN_FINDINGS))
    except FileNotFoundError:
        return {"findings": [], "fixed": []}


def known_match(known, prop, harness, failed_item):
    """A finding entry matches one failed check of one harness: by harness name and by a substring of the
    failed check's description (the role of the failing check), optionally its function."""
    for f in known.get("findings", []):
        if harness != f.get("harness"):
            continue
        if prop not in f.get("properties", [f.get("property")]):
            continue
        if f.get("check_contains", "") not in (failed_item.get("description") or ""):
            continue
        if f.get("function_contains") and f["function_contains"] not in (failed_item.get("function") or ""):
            continue
        return f
    return None


def rel_location(item, scratch_repo):
    f = item.get("file") or ""
    if scratch_repo and f.startswith(scratch_repo):
        f = f[len(scratch_repo) + 1:]
    f = re.sub(r"^.*/rustlib/src/rust/", "rust:", f)
    return "%s:%s" % (f, item.get("line"))


def replay_candidate(scratch, repo_copy, target_dir, log_dir, prop, r):
    """Generate the concrete test for a failed harness and execute it natively. Returns
    (verdict, replay_path, detail) with verdict in reproduced | not_reproduced | error."""
    h = r.h
    tests = kani.run_single_playback_print(repo_copy, h.pkg, h.features, h, target_dir,
                                           os.path.join(log_dir, "playback_print_%s.log" % h.name), timeout=max(600, h.timeout * 2))
    if not tests:
        return "error", None, "concrete playback produced no test"
    rdir = os.path.join(VERIF, "replays", prop)
    os.makedirs(rdir, exist_ok=True)
    rpath = os.path.join(rdir, h.name + ".rs")
    header = ("// Concrete counterexample produced by Kani/CBMC for harness %s (property %s).\n"
              "// Replay: ./check %s --replay %s\n"
              "// module: %s\n") % (h.qualified, prop, prop, rpath, h.module["file"])
    with open(rpath, "w") as f:
        f.write(header + "\n".join(tests))
    verdict, detail = run_replay_file(repo_copy, target_dir, log_dir, rpath, already_injected=True)
    return verdict, rpath, detail


def run_replay_file(repo_copy, target_dir, log_dir, rpath, already_injected):
    src = open(rpath).read()
    m = re.search(r"^// module: (\S+)$", src, re.M)
    if not m:
        return "error", "replay file has no '// module:' header"
    mods = inject.harness_files()
    if m.group(1) not in mods:
        return "error", "unknown harness module %s" % m.group(1)
    mod = mods[m.group(1)]
    names = re.findall(r"fn (kani_concrete_playback_[A-Za-z0-9_]+)", src)
    if not names:
        return "error", "no playback test in file"
    spath = inject.scratch_harness_path(repo_copy, mod)
    with open(spath, "a") as f:
        f.write("\n" + src + "\n")
    worst = "not_reproduced"
    details = []
    for n in names:
        for release in (False,):   # `cargo kani playback` of Kani 0.68 has no --release: the dev profile (the one Kani models) is replayed
            v, d = kani.run_playback_test(repo_copy, mod["pkg"], mod.get("features", ""), target_dir, n,
                                          os.path.join(log_dir, "playback_%s%s.log" % (n, "_release" if release else "")),
                                          timeout=1800, release=release)
            details.append("%s[%s]: %s %s" % (n, "release" if release else "dev", v, d))
            if v == "failed":
                worst = "reproduced"
            elif v == "error" and worst != "reproduced":
                if not release:
                    worst = "error"
            if v == "failed":
                break
    return worst, "; ".join(details)


def check_property(prop, tier, seed, only=None):
    t0 = time.time()
    hs = registry.for_property(prop, tier)
    if only:
        hs = [h for h in registry.for_property(prop, "thorough") if h.name in only]
    lemmas = smt.lemmas_for(prop)
    if not hs:
        print("no harnesses registered for %s" % prop)
        return 2
    rnd = random.Random(seed)
    rnd.shuffle(hs)
    scratch, repo_copy = inject.make_scratch(prop)
    _cleanup_dirs.append(scratch)
    log_dir = os.path.join(scratch, "logs")
    os.makedirs(log_dir, exist_ok=True)
    keep_logs = os.path.join(VERIF, ".logs", "%s-%s" % (prop, tier))
    known = load_known()
    inconclusive = []
    violations = []
    known_hits = []
    results = {}
    runs = []
    try:
        inject.inject(repo_copy)
    except inject.InjectError as e:
        print("INCONCLUSIVE: injection failed: %s" % e)
        write_evidence(prop, tier, seed, {}, [], [], [], [], ["injection failed: %s" % e], time.time() - t0, [])
        return 2

    # required harnesses run first (own cargo-kani invocation), stretch harnesses afterwards with whatever budget is left:
    # a stretch harness that eats the budget can then never starve a required one
    groups = {}
    for h in hs:
        groups.setdefault((0 if h.required else 1,) + h.group(), []).append(h)
    budget = int(os.environ.get("GV_BUDGET_S", "1200" if tier == "quick" else "3500"))
    for (phase, pkg, feats), ghs in sorted(groups.items()):
        if phase == 1 and budget - int(time.time() - t0) < 120:
            for h in ghs:
                r = kani.HarnessResult(h)
                r.status, r.note = "timeout", "not started: wall-clock budget of the check exhausted by earlier harnesses"
                results[h.name] = r
            continue
        target_dir = os.path.join(scratch, "target-%s-%s" % (pkg, feats.replace(",", "_") or "default"))
        # as many CBMC processes as fit: the j largest memory caps must fit into the memory budget together
        mem_total = float(os.environ.get("GV_MEM_GB", "44"))
        mems = sorted((h.mem_gb for h in ghs), reverse=True)
        jobs = 1
        for j in range(1, min(int(os.environ.get("GV_JOBS", "8")), len(ghs)) + 1):
            if sum(mems[:j]) <= mem_total:
                jobs = j
        remaining = max(120, budget - int(time.time() - t0))
        res, info = kani.run_group(repo_copy, pkg, feats, ghs, target_dir, log_dir, jobs, remaining,
                                   tag="%s_%s%s" % (pkg, feats.replace(",", "_") or "default", "_stretch" if phase else ""))
        runs.append(info)
        results.update(res)
        # candidate violations -> native replay
        # smallest counterexamples first: concrete playback of a large trace can take many minutes
        for name, r in sorted(res.items(), key=lambda kv: (kv[1].duration_s or 0)):
            if r.status == "failure" and r.failed:
                real_fail = [f for f in r.failed if "unwinding assertion" not in f["description"]]
                if not real_fail:
                    continue
                unknown = [f for f in real_fail if not known_match(known, prop, name, f)]
                if unknown and violations and time.time() - t0 > budget:
                    # a violation has already been reproduced natively and the wall budget is used up: further failing
                    # harnesses are listed but not replayed (the exit status is 1 either way)
                    r.replay = {"verdict": "not_replayed", "path": None, "detail": "budget exhausted after an earlier reproduced violation"}
                    print("  further failing harness (not replayed, budget exhausted): %s: %s" % (name, unknown[0]["description"]))
                    continue
                if unknown:
                    verdict, rpath, detail = replay_candidate(scratch, repo_copy, target_dir, log_dir, prop, r)
                    r.replay = {"verdict": verdict, "path": rpath, "detail": detail}
                if unknown:
                    if verdict == "reproduced":
                        violations.append((name, rpath, unknown))
                    else:
                        inconclusive.append("%s: counterexample did not reproduce natively (%s: %s)" % (name, verdict, detail))
                else:
                    for f in real_fail:
                        kf = known_match(known, prop, name, f)
                        known_hits.append((name, kf, f))

    # classification of everything else
    discharged = []
    not_discharged = []
    for name, r in sorted(results.items()):
        if r.status == "success":
            if not r.covers_ok():
                bad = [d for d, s in r.covers if s != "Satisfied"]
                inconclusive.append("%s: cover witness not satisfied (vacuity guard): %s" % (name, bad))
            else:
                discharged.append(name)
        elif r.status == "failure":
            if r.unwinding_failed and all("unwinding assertion" in f["description"] for f in r.failed):
                inconclusive.append("%s: unwinding assertion failed (bound too small)" % name)
            elif not r.failed:
                bad = [d for d, s in r.covers if s != "Satisfied"]
                inconclusive.append("%s: failed without failed checks; unsatisfied covers: %s" % (name, bad))
        else:
            msg = "%s: no verdict (%s%s)" % (name, r.status, (": " + r.note) if r.note else "")
            if r.h.required:
                inconclusive.append(msg)
            not_discharged.append(msg)

    # SMT composition lemmas (E2)
    lemma_results = smt.run_lemmas(lemmas, log_dir)
    for lr in lemma_results:
        if lr["verdict"] == "refuted":
            inconclusive.append("lemma %s refuted by the solver (specification-level lemma, not code): %s" % (lr["name"], lr["detail"]))
        elif lr["verdict"] != "proved":
            inconclusive.append("lemma %s inconclusive: %s" % (lr["name"], lr["detail"]))

    # keep logs of this run for inspection (not evidence)
    try:
        shutil.rmtree(keep_logs, ignore_errors=True)
        shutil.copytree(log_dir, keep_logs)
    except Exception:
        pass

    wall = time.time() - t0
    write_evidence(prop, tier, seed, results, discharged, not_discharged, violations, known_hits, inconclusive, wall, runs,
                   lemma_results, repo_copy)

    seen = set()
    for name, kf, f in known_hits:
        key = (kf.get("id"), name)
        if key in seen:
            continue
        seen.add(key)
        print("KNOWN-FINDING: property=%s %s [harness %s: %s]" % (prop, kf.get("what"), name, f.get("description")))
    for name, rpath, fails in violations:
        for f in fails[:3]:
            print("  failed check in %s: %s at %s" % (name, f["description"], rel_location(f, repo_copy)))
        print("VIOLATION property=%s replay=%s" % (prop, rpath))
    for m in inconclusive:
        print("INCONCLUSIVE: %s" % m)
    print("%s %s: %d harnesses, %d discharged, %d without verdict, %d violation(s), %d known finding(s), %d lemma(s); %.0f s"
          % (prop, tier, len(results), len(discharged), len(not_discharged), len(violations), len(seen), len(lemma_results), wall))
    if violations:
        return 1
    if inconclusive:
        return 2
    return 0


def write_evidence(prop, tier, seed, results, discharged, not_discharged, violations, known_hits, inconclusive, wall, runs,
                   lemma_results=None, repo_copy=None):
    lemma_results = lemma_results or []
    samples = []
    obligations = 0
    proved = 0
    solver_s = 0.0
    symex_s = 0.0
    fns = set()
    stubs = set()
    bounds = []
    for name, r in sorted(results.items()):
        c = r.counts or {}
        total = int(c.get("total_properties") or 0)
        ok = int(c.get("passed") or 0) + int(c.get("unreachable") or 0) + int(c.get("satisfied") or 0)
        obligations += total
        proved += ok if r.status in ("success", "failure") else 0
        solver_s += float(r.cbmc.get("runtime_decision_procedure_s") or 0)
        symex_s += float(r.cbmc.get("runtime_symex_s") or 0)
        fns.update(r.h.fns)
        stubs.update(r.h.stubs)
        if r.h.stub_note:
            stubs.add(r.h.stub_note)
        bounds.append("%s: unwind %s; %s" % (name, r.h.unwind, r.h.bounds))
        samples.append({
            "harness": r.h.qualified,
            "functions_under_test": r.h.fns,
            "tier": r.h.tier,
            "required": r.h.required,
            "unwind": r.h.unwind,
            "bounds": r.h.bounds,
            "status": r.status,
            "note": r.note,
            "cbmc_checks": c,
            "cover_witnesses": [{"cover": d, "status": s} for d, s in r.covers],
            "failed_checks": [{"description": f["description"], "at": rel_location(f, repo_copy)} for f in r.failed][:10],
            "vccs_generated": r.cbmc.get("vccs_generated"),
            "vccs_after_simplification": r.cbmc.get("vccs_remaining"),
            "symex_s": r.cbmc.get("runtime_symex_s"),
            "solver_s": r.cbmc.get("runtime_decision_procedure_s"),
            "duration_s": r.duration_s,
            "peak_rss_gb": r.peak_rss_gb,
            "replay": getattr(r, "replay", None),
        })
    for lr in lemma_results:
        samples.append({"lemma": lr["name"], "statement": lr["statement"], "verdict": lr["verdict"], "solvers": lr["solvers"]})
        obligations += 1
        proved += 1 if lr["verdict"] == "proved" else 0
    ev = {
        "property_id": prop,
        "tier": tier,
        "seed": seed,
        "level": "model_checking",
        "coverage": {
            "evaluations": len(results) + len(lemma_results),
            "distinct_nontrivial": len(discharged) + len([l for l in lemma_results if l["verdict"] == "proved"]),
            "rule": "one evaluation = one Kani proof harness (bounded symbolic execution of the real functions by CBMC, all values "
                    "within the stated bound decided by the SAT solver) or one SMT lemma; a harness counts as non-trivial iff it "
                    "reached VERIFICATION SUCCESSFUL with every kani::cover! witness satisfied and no unwinding assertion failed; "
                    "harnesses are distinct by (functions under test, shape parameters)",
            "samples": samples,
            "obligations": obligations,
            "discharged": proved,
            "checker_cmd": "; ".join(r["cmd"] for r in runs)[:4000],
            "trusted_base": ["rustc MIR -> Kani 0.68 GOTO translation", "CBMC 6.11.0", "CaDiCaL", "z3 4.8.12 / cvc5 1.0 (lemmas)",
                             "container models harness/kani_models.rs", "stubs listed under 'stubs'", "oracle transcriptions of the OASIS MQTT tables"],
            "functions_encoded": sorted(fns),
            "stubs": sorted(stubs),
            "bounds": bounds,
            "solver_seconds": round(solver_s, 3),
            "symex_seconds": round(symex_s, 3),
            "harnesses_discharged": discharged,
            "not_discharged": not_discharged,
            "inconclusive": inconclusive,
            "known_findings_hit": sorted(set("%s: %s" % (n, kf.get("id")) for n, kf, _ in known_hits)),
            "exhaustive": False,
            "explanation": "bounded model checking of the compiled source in /repo's working tree (scratch copy, harness modules appended); "
                           "nothing outside the stated bounds is claimed",
        },
        "assumptions": [
            "every claim is bounded: see coverage.bounds per harness",
            "std HashMap/HashSet and lru::LruCache replaced by association-list models in the scratch copy",
            "std::fmt::format stubbed to return an empty string where listed (message text is never a subject)",
            "results and states are mem::forget-ed at the end of harnesses (destructors are not a subject)",
            "dev profile semantics (overflow checks on)",
        ],
        "wall_s": round(wall, 2),
        "violations": len(violations),
    }
    os.makedirs(os.path.join(VERIF, "evidence"), exist_ok=True)
    target = os.path.join(VERIF, "evidence", prop + ".json")
    if os.environ.get("GV_EVIDENCE_SCRATCH"):      # partial (--only) runs never overwrite the property's evidence
        os.makedirs(os.path.join(VERIF, ".logs"), exist_ok=True)
        target = os.path.join(VERIF, ".logs", "evidence_partial_%s.json" % prop)
    with open(target, "w") as f:
        json.dump(ev, f, indent=1)


def probe(patterns, timeout):
    allh = registry.load()
    hs = []
    for h in allh:
        for p in patterns:
            if (p.endswith("*") and h.name.startswith(p[:-1])) or h.name == p:
                hs.append(h)
                break
    if not hs:
        print("no harness matches")
        return 2
    scratch, repo_copy = inject.make_scratch("probe")
    _cleanup_dirs.append(scratch)
    inject.inject(repo_copy)
    log_dir = os.path.join(scratch, "logs")
    groups = {}
    for h in hs:
        h.timeout = timeout
        groups.setdefault(h.group(), []).append(h)
    keep = os.path.join(VERIF, ".logs", "probe")
    for (pkg, feats), ghs in sorted(groups.items()):
        target_dir = os.path.join(scratch, "target-%s-%s" % (pkg, feats.replace(",", "_") or "default"))
        jobs = max(1, min(int(os.environ.get("GV_JOBS", "8")), len(ghs)))
        res, info = kani.run_group(repo_copy, pkg, feats, ghs, target_dir, log_dir, jobs, timeout + 600,
                                   tag="%s_%s" % (pkg, feats.replace(",", "_") or "default"))
        if info["build_failed"]:
            print("BUILD FAILED, see %s" % os.path.join(keep, os.path.basename(info["log"])))
        for name, r in sorted(res.items()):
            print("%-44s %-8s %7s s  rss %5s GB  checks %s  covers %s  %s" % (
                name, r.status, "%.1f" % r.duration_s if r.duration_s is not None else "-", r.peak_rss_gb,
                (r.counts or {}).get("total_properties"), ["%s:%s" % (d[:30], s) for d, s in r.covers if s != "Satisfied"] or "ok", r.note))
            for f in r.failed[:6]:
                print("      FAILED: %s @ %s" % (f["description"], rel_location(f, repo_copy)))
    shutil.rmtree(keep, ignore_errors=True)
    shutil.copytree(log_dir, keep)
    return 0


def do_replay(prop, path):
    scratch, repo_copy = inject.make_scratch(prop + "-replay")
    _cleanup_dirs.append(scratch)
    inject.inject(repo_copy)
    log_dir = os.path.join(scratch, "logs")
    os.makedirs(log_dir, exist_ok=True)
    verdict, detail = run_replay_file(repo_copy, os.path.join(scratch, "target-replay"), log_dir, path, already_injected=False)
    print("replay %s: %s (%s)" % (path, verdict, detail))
    if verdict == "reproduced":
        print("VIOLATION property=%s replay=%s" % (prop, path))
        return 1
    return 0 if verdict == "not_reproduced" else 2


def main():
    ap = argparse.ArgumentParser()
    ap.add_argument("prop", nargs="?")
    ap.add_argument("--tier", default=os.environ.get("VERIF_TIER", "quick"), choices=["quick", "thorough"])
    ap.add_argument("--replay")
    ap.add_argument("--list", action="store_true")
    ap.add_argument("--selftest")
    ap.add_argument("--only", help="development / mutant triage: restrict the property's check to these comma-separated harnesses (any tier)")
    ap.add_argument("--probe", nargs="+", help="development: run the named harnesses (prefix match with trailing *) and print status/time/memory")
    ap.add_argument("--probe-timeout", type=int, default=1200)
    a = ap.parse_args()
    seed = int(os.environ.get("VERIF_SEED", "0") or 0)
    if a.list:
        for h in registry.load():
            print("%-40s %-12s %-8s %s %s" % (h.name, ",".join(h.props), h.tier, "required" if h.required else "stretch", h.qualified))
        return 0
    if a.selftest:
        from gv import selftest
        return selftest.run(a.selftest)
    if a.probe:
        return probe(a.probe, a.probe_timeout)
    if not a.prop:
        ap.error("property id required")
    if a.replay:
        return do_replay(a.prop, a.replay)
    if a.only:
        os.environ["GV_EVIDENCE_SCRATCH"] = "1"
    return check_property(a.prop, a.tier, seed, only=a.only.split(",") if a.only else None)


if __name__ == "__main__":
    sys.exit(main())
