// Concrete counterexample produced by Kani/CBMC for harness protocol::gv_protocol::c10_sort_cap4_head3_n3 (property C10).
// Replay: ./check C10 --replay /verif/replays/C10/c10_sort_cap4_head3_n3.rs
// module: protocol_child.rs
/// Test generated for harness `protocol::gv_protocol::c10_sort_cap4_head3_n3` 
///
/// Check for `cover`: "ring layout as intended"

#[test]
fn kani_concrete_playback_c10_sort_cap4_head3_n3_9444564023460139040() {
    let concrete_vals: Vec<Vec<u8>> = vec![
        // 18446744073709551615ul
        vec![255, 255, 255, 255, 255, 255, 255, 255],
        // 18446744073709551615ul
        vec![255, 255, 255, 255, 255, 255, 255, 255],
        // 18446744073709551615ul
        vec![255, 255, 255, 255, 255, 255, 255, 255],
        // 18446744073709551615ul
        vec![255, 255, 255, 255, 255, 255, 255, 255],
    ];
    kani::concrete_playback_run(concrete_vals, c10_sort_cap4_head3_n3);
}

/// Test generated for harness `protocol::gv_protocol::c10_sort_cap4_head3_n3` 
///
/// Check for `assertion`: "assertion failed: d[i] <= d[i + 1]"

#[test]
fn kani_concrete_playback_c10_sort_cap4_head3_n3_11350196789245045488() {
    let concrete_vals: Vec<Vec<u8>> = vec![
        // 4611686018427387904ul
        vec![0, 0, 0, 0, 0, 0, 0, 64],
        // 0ul
        vec![0, 0, 0, 0, 0, 0, 0, 0],
        // 4611686018427387904ul
        vec![0, 0, 0, 0, 0, 0, 0, 64],
        // 18446744073709551615ul
        vec![255, 255, 255, 255, 255, 255, 255, 255],
    ];
    kani::concrete_playback_run(concrete_vals, c10_sort_cap4_head3_n3);
}
