"""Running cargo-kani on the scratch copy and reading its verdicts."""
import json
import os
import re
import signal
import subprocess
import threading
import time

ENV_BASE = {
    "CARGO_NET_OFFLINE": "true",
    "CARGO_TERM_COLOR": "never",
}


def _env():
    e = dict(os.environ)
    e.update(ENV_BASE)
    # the repository may pin a toolchain / flags in the caller's environment; Kani uses its own
    for k in ("RUSTFLAGS", "RUSTUP_TOOLCHAIN", "CARGO_TARGET_DIR", "RUSTC_WRAPPER", "CARGO_ENCODED_RUSTFLAGS"):
        e.pop(k, None)
    return e


def _preexec():
    os.setsid()
    try:
        import resource
        resource.setrlimit(resource.RLIMIT_STACK, (resource.RLIM_INFINITY, resource.RLIM_INFINITY))
    except Exception:
        pass


def _descendants(root_pid):
    """pid -> (ppid, rss_kb, etimes, args) for all descendants of root_pid."""
    out = subprocess.run(["ps", "-eo", "pid=,ppid=,rss=,etimes=,args="], stdout=subprocess.PIPE).stdout.decode(errors="replace")
    procs = {}
    for ln in out.split("\n"):
        parts = ln.split(None, 4)
        if len(parts) < 5:
            continue
        try:
            procs[int(parts[0])] = (int(parts[1]), int(parts[2]), int(parts[3]), parts[4])
        except ValueError:
            pass
    res = {}
    frontier = [root_pid]
    while frontier:
        nxt = []
        for pid, v in procs.items():
            if v[0] in frontier and pid not in res:
                res[pid] = v
                nxt.append(pid)
        frontier = nxt
    return res


class Watchdog(threading.Thread):
    """Kills a CBMC process that exceeds the memory cap of its harness (ulimit -v makes CBMC abort far
    below the cap, so resident size is polled instead). Records what it killed."""

    def __init__(self, root_pid, harness_caps_kb, default_cap_kb):
        super().__init__(daemon=True)
        self.root_pid = root_pid
        self.caps = harness_caps_kb     # harness fn name -> cap in kB
        self.default = default_cap_kb
        self.killed = {}                # harness name -> reason
        self.peak = {}                  # harness name -> peak rss kB
        self._stop = threading.Event()

    def stop(self):
        self._stop.set()

    def _harness_of(self, args):
        best = None
        for name in self.caps:
            if name in args and (best is None or len(name) > len(best)):
                best = name
        return best

    def run(self):
        while not self._stop.wait(2.0):
            try:
                for pid, (ppid, rss, et, args) in _descendants(self.root_pid).items():
                    exe = args.split(None, 1)[0]
                    if not (exe.endswith("cbmc") or exe.endswith("goto-instrument") or exe.endswith("goto-cc")):
                        continue
                    h = self._harness_of(args) or "?"
                    self.peak[h] = max(self.peak.get(h, 0), rss)
                    cap = self.caps.get(h, self.default)
                    if rss > cap:
                        self.killed[h] = "memory cap %.1f GB exceeded (rss %.1f GB after %d s)" % (cap / 1048576.0, rss / 1048576.0, et)
                        try:
                            os.kill(pid, signal.SIGKILL)
                        except OSError:
                            pass
            except Exception:
                pass


class HarnessResult:
    def __init__(self, h):
        self.h = h
        self.status = "missing"     # success | failure | timeout | oom | error | missing
        self.failed = []            # list of dict(description, function, file, line, category)
        self.unwinding_failed = False
        self.covers = []            # (description, status)
        self.counts = {}
        self.cbmc = {}
        self.duration_s = None
        self.peak_rss_gb = None
        self.note = ""
        self.undetermined = 0

    def covers_ok(self):
        return all(s == "Satisfied" for _, s in self.covers)


def run_group(repo_copy, pkg, features, harnesses, target_dir, log_dir, jobs, wall_timeout, extra_args=None, tag="grp"):
    """One cargo-kani invocation for all harnesses of a (package, features) group. Returns dict name->HarnessResult."""
    os.makedirs(log_dir, exist_ok=True)
    jpath = os.path.join(log_dir, "%s.json" % tag)
    lpath = os.path.join(log_dir, "%s.log" % tag)
    if os.path.exists(jpath):
        os.unlink(jpath)
    max_to = max(h.timeout for h in harnesses)
    cmd = ["cargo", "kani", "--target-dir", target_dir, "-Z", "stubbing", "-Z", "unstable-options",
           "--output-format", "terse", "-j", str(jobs), "--export-json", jpath,
           "--harness-timeout", "%ds" % max_to, "--exact"]
    if features:
        cmd += ["--features", features]
    for h in harnesses:
        cmd += ["--harness", h.qualified]
    if extra_args:
        cmd += extra_args
    results = {h.name: HarnessResult(h) for h in harnesses}
    t0 = time.time()
    with open(lpath, "w") as lf:
        lf.write("$ cd %s && %s\n" % (os.path.join(repo_copy, pkg), " ".join(cmd)))
        lf.flush()
        p = subprocess.Popen(cmd, cwd=os.path.join(repo_copy, pkg), stdout=lf, stderr=subprocess.STDOUT,
                             env=_env(), preexec_fn=_preexec)
        wd = Watchdog(p.pid, {h.name: int(h.mem_gb * 1048576) for h in harnesses}, int(12 * 1048576))
        wd.start()
        try:
            p.wait(timeout=wall_timeout)
            timed_out = False
        except subprocess.TimeoutExpired:
            timed_out = True
            try:
                os.killpg(p.pid, signal.SIGKILL)
            except OSError:
                pass
            p.wait()
        wd.stop()
    wall = time.time() - t0
    log_text = open(lpath, errors="replace").read()
    build_failed = ("error: could not compile" in log_text) or ("error[E" in log_text) or ("Kani Rust Verifier" not in log_text)
    data = None
    if os.path.exists(jpath):
        try:
            data = json.load(open(jpath))
        except Exception:
            data = None
    _fill_from_json(results, data)
    _fill_from_log(results, log_text)
    for name, r in results.items():
        if name in wd.peak:
            r.peak_rss_gb = round(wd.peak[name] / 1048576.0, 2)
        if name in wd.killed:
            r.status = "oom"
            r.note = wd.killed[name]
        elif r.status == "missing" and timed_out:
            r.status = "timeout"
            r.note = "wall-clock budget of the check (%d s) exhausted" % wall_timeout
        elif r.status == "missing" and build_failed:
            r.status = "error"
            r.note = "build failed (see %s)" % lpath
    return results, {"cmd": " ".join(cmd), "wall_s": wall, "log": lpath, "json": jpath, "build_failed": build_failed,
                     "timed_out": timed_out, "rc": p.returncode}


def _fill_from_json(results, data):
    if not data:
        return
    byq = {r.h.qualified: r for r in results.values()}
    for pd in data.get("property_details", []):
        r = byq.get(pd.get("harness_id"))
        if r is not None:
            r.counts = pd.get("property_details") or {}
    for c in data.get("cbmc", []):
        r = byq.get(c.get("harness_id"))
        if r is not None:
            r.cbmc = c.get("cbmc_stats") or {}
    for res in (data.get("verification_results") or {}).get("results", []):
        r = byq.get(res.get("harness_id"))
        if r is None:
            continue
        st = res.get("status")
        r.duration_s = (res.get("duration_ms") or 0) / 1000.0
        checks = res.get("checks") or []
        for c in checks:
            cat = c.get("category") or ""
            status = c.get("status") or ""
            desc = c.get("description") or ""
            loc = c.get("location") or {}
            if cat == "cover" or status in ("Satisfied", "Unsatisfiable", "Unsatisfied"):
                r.covers.append((desc, "Satisfied" if status == "Satisfied" else status))
                continue
            if status in ("Failure", "Error"):
                item = {"description": desc, "function": c.get("function"), "file": loc.get("file"),
                        "line": loc.get("line"), "category": cat, "status": status}
                if "unwinding assertion" in desc or cat == "unwind":
                    r.unwinding_failed = True
                r.failed.append(item)
        r.undetermined = sum(1 for c in checks if (c.get("status") or "") == "Undetermined")
        if st == "Success":
            r.status = "success"
        elif st == "Failure":
            r.status = "failure"
            if not r.failed and not r.covers:
                r.status = "error"
                r.note = "harness reported failure without failed checks (CBMC error / timeout / out of memory)"
        elif st:
            r.status = "error"
            r.note = "kani status %s" % st


RE_CHECKING = re.compile(r"Checking harness ([A-Za-z0-9_:]+)\.\.\.")


def _fill_from_log(results, text):
    """Fallback when the JSON export is missing or incomplete (run killed, CBMC crash): recover per-harness verdicts from
    the terse log. Thread N's result block follows its 'Checking harness' line."""
    byq = {r.h.qualified: r for r in results.values()}
    current = {}          # thread -> harness result
    lines = text.split("\n")
    i = 0
    while i < len(lines):
        ln = lines[i]
        m = re.match(r"(?:Thread (\d+): )?Checking harness ([A-Za-z0-9_:]+)\.\.\.", ln)
        if m:
            current[m.group(1) or "0"] = byq.get(m.group(2))
            i += 1
            continue
        m = re.match(r"Thread (\d+): \s*$", ln)
        if m or ln.startswith("VERIFICATION RESULT:"):
            th = m.group(1) if m else "0"
            r = current.get(th)
            block = []
            j = i + 1
            while j < len(lines) and not re.match(r"Thread \d+: ", lines[j]) and not lines[j].startswith("Manual Harness Summary") and not lines[j].startswith("Checking harness"):
                block.append(lines[j])
                j += 1
            if r is not None and r.status == "missing":
                btxt = "\n".join(block)
                tm = re.search(r"Verification Time: ([0-9.]+)s", btxt)
                if tm:
                    r.duration_s = float(tm.group(1))
                cm = re.search(r"\*\* (\d+) of (\d+) failed", btxt)
                if cm:
                    r.counts = {"total_properties": int(cm.group(2)), "failed": int(cm.group(1)), "passed": int(cm.group(2)) - int(cm.group(1))}
                cv = re.search(r"\*\* (\d+) of (\d+) cover properties satisfied", btxt)
                if "CBMC timed out" in btxt:
                    r.status, r.note = "timeout", "CBMC timed out (per-harness timeout)"
                elif "VERIFICATION:- SUCCESSFUL" in btxt:
                    r.status = "success"
                    if cv and cv.group(1) != cv.group(2):
                        r.covers = [("(from log) %s of %s covers satisfied" % (cv.group(1), cv.group(2)), "Unsatisfiable")]
                    r.note = "verdict recovered from the log (JSON export missing)"
                elif "VERIFICATION:- FAILED" in btxt:
                    fails = re.findall(r"Failed Checks: (.*)\n File: \"([^\"]*)\", line (\d+)", btxt)
                    if fails:
                        r.status = "failure"
                        for d, f, l in fails:
                            item = {"description": d.strip().strip('"'), "function": None, "file": f, "line": l, "category": "", "status": "Failure"}
                            if "unwinding assertion" in d:
                                r.unwinding_failed = True
                            r.failed.append(item)
                    else:
                        r.status, r.note = "error", "CBMC failed without a verdict (out of memory / crash)"
            i = j
            continue
        i += 1


def run_single_playback_print(repo_copy, pkg, features, h, target_dir, log_path, timeout):
    """Re-run one harness with concrete playback and return the generated #[test] source (or None)."""
    cmd = ["cargo", "kani", "--target-dir", target_dir, "-Z", "stubbing", "-Z", "concrete-playback",
           "--concrete-playback=print", "--exact", "--harness", h.qualified]
    if features:
        cmd += ["--features", features]
    with open(log_path, "w") as lf:
        lf.write("$ " + " ".join(cmd) + "\n")
        lf.flush()
        p = subprocess.Popen(cmd, cwd=os.path.join(repo_copy, pkg), stdout=lf, stderr=subprocess.STDOUT,
                             env=_env(), preexec_fn=_preexec)
        try:
            p.wait(timeout=timeout)
        except subprocess.TimeoutExpired:
            try:
                os.killpg(p.pid, signal.SIGKILL)
            except OSError:
                pass
            p.wait()
            return None
    text = open(log_path, errors="replace").read()
    tests = []
    # ```\n/// Test generated for harness ...\n#[test]\nfn kani_concrete_playback_...() {...}\n```
    seen = set()
    for m in re.finditer(r"```\n(.*?)```", text, re.S):
        body = m.group(1)
        fm = re.search(r"fn (kani_concrete_playback_[A-Za-z0-9_]+)", body)
        if not fm:
            continue
        # note: Kani also prints witnesses of satisfied covers, and merges a failing check's test with a cover's
        # test when the values coincide, so every distinct test is kept; only a test that FAILS natively counts
        if fm.group(1) in seen:
            continue
        seen.add(fm.group(1))
        # keep only the test function: the generated doc comment quotes the failed check's description, which may span
        # several lines without the `///` prefix (a multi-line assert expression) and then does not compile
        k = body.find("#[test]")
        what = re.search(r"/// Check for `([^`]*)`: (.*)", body)
        note = "// %s: %s\n" % (what.group(1), what.group(2)[:200].replace("\n", " ")) if what else ""
        tests.append(note + (body[k:] if k >= 0 else body))
    return tests or None


def run_playback_test(repo_copy, pkg, features, target_dir, test_filter, log_path, timeout, release=False):
    """cargo kani playback: runs the generated unit test natively against the real code.
    Returns 'failed' (the counterexample reproduces), 'passed' (it does not), or 'error'."""
    cmd = ["cargo", "kani", "playback", "-Z", "concrete-playback", "--lib"]
    if features:
        cmd += ["--features", features]
    if release:
        cmd += ["--release"]
    cmd += ["--", test_filter]
    env = _env()
    env["CARGO_TARGET_DIR"] = target_dir
    with open(log_path, "w") as lf:
        lf.write("$ " + " ".join(cmd) + "\n")
        lf.flush()
        p = subprocess.Popen(cmd, cwd=os.path.join(repo_copy, pkg), stdout=lf, stderr=subprocess.STDOUT,
                             env=env, preexec_fn=_preexec)
        try:
            p.wait(timeout=timeout)
        except subprocess.TimeoutExpired:
            try:
                os.killpg(p.pid, signal.SIGKILL)
            except OSError:
                pass
            p.wait()
            return "error", "timeout"
    text = open(log_path, errors="replace").read()
    m = re.search(r"test result: (\w+)\. (\d+) passed; (\d+) failed", text)
    if not m:
        return "error", "no test result line"
    passed, failed = int(m.group(2)), int(m.group(3))
    if passed + failed == 0:
        return "error", "test filter matched nothing"
    panic = ""
    pm = re.search(r"panicked at ([^\n]*\n[^\n]*)", text)
    if pm:
        panic = pm.group(1).strip()
    return ("failed" if failed > 0 else "passed"), panic
