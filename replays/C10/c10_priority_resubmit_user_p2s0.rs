// Concrete counterexample produced by Kani/CBMC for harness protocol::gv_protocol::c10_priority_resubmit_user_p2s0 (property C10).
// Replay: ./check C10 --replay /verif/replays/C10/c10_priority_resubmit_user_p2s0.rs
// module: protocol_child.rs
// cover: "an operation is dequeued"
#[test]
fn kani_concrete_playback_c10_priority_resubmit_user_p2s0_16838942336875351489() {
    let concrete_vals: Vec<Vec<u8>> = vec![
        // 2
        vec![2],
        // 1
        vec![1],
        // 0
        vec![0],
        // 1
        vec![1],
        // 1
        vec![1],
        // 2
        vec![2, 0],
        // 0
        vec![0, 0, 0, 0],
        // 0
        vec![0],
        // 1
        vec![1],
        // 4294967295
        vec![255, 255, 255, 255],
    ];
    kani::concrete_playback_run(concrete_vals, c10_priority_resubmit_user_p2s0);
}

// cover: "nothing leaves although no write is pending (flow control / slow start)"
#[test]
fn kani_concrete_playback_c10_priority_resubmit_user_p2s0_12321375980441533372() {
    let concrete_vals: Vec<Vec<u8>> = vec![
        // 2
        vec![2],
        // 1
        vec![1],
        // 2
        vec![2],
        // 1
        vec![1],
        // 1
        vec![1],
        // 1
        vec![1, 0],
        // 4294967295
        vec![255, 255, 255, 255],
        // 0
        vec![0],
        // 1
        vec![1],
        // 4294967295
        vec![255, 255, 255, 255],
    ];
    kani::concrete_playback_run(concrete_vals, c10_priority_resubmit_user_p2s0);
}
