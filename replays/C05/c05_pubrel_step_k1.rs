// Concrete counterexample produced by Kani/CBMC for harness protocol::gv_protocol::c05_pubrel_step_k1 (property C05).
// Replay: ./check C05 --replay /verif/replays/C05/c05_pubrel_step_k1.rs
// module: protocol_child.rs
// cover: "PUBREL releases a known id"
#[test]
fn kani_concrete_playback_c05_pubrel_step_k1_12295164609609318085() {
    let concrete_vals: Vec<Vec<u8>> = vec![
        // 1
        vec![1],
        // 0
        vec![0, 0],
        // 65535
        vec![255, 255],
        // 0
        vec![0, 0],
    ];
    kani::concrete_playback_run(concrete_vals, c05_pubrel_step_k1);
}

// cover: "PUBREL for an unknown id"
#[test]
fn kani_concrete_playback_c05_pubrel_step_k1_7502904176254652846() {
    let concrete_vals: Vec<Vec<u8>> = vec![
        // 1
        vec![1],
        // 32768
        vec![0, 128],
        // 65535
        vec![255, 255],
        // 0
        vec![0, 0],
    ];
    kani::concrete_playback_run(concrete_vals, c05_pubrel_step_k1);
}
