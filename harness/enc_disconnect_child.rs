// @gv-module parent=gneiss-mqtt/src/mqtt/disconnect.rs name=gv_enc_disconnect pkg=gneiss-mqtt
//
// Child module of mqtt/disconnect.rs. C02: DISCONNECT on the wire vs the OASIS layout (MQTT5 3.14, MQTT 3.1.1 3.14).
use super::{write_disconnect_encoding_steps5, write_disconnect_encoding_steps311, get_disconnect_packet_reason_string,
    get_disconnect_packet_server_reference, get_disconnect_packet_user_property};
use crate::encode::{EncodingStep, EncodingContext};
use crate::alias::OutboundAliasResolution;
use crate::mqtt::{MqttPacket, ProtocolVersion, DisconnectPacket, DisconnectReasonCode, UserProperty, QualityOfService};
use std::collections::VecDeque;

include!("common.rs");
include!("encode_common.rs");

const F_REASON: u8 = 1; const F_SERVER_REF: u8 = 2; const F_UP_NAME: u8 = 6; const F_UP_VALUE: u8 = 7;

fn field_of(step: &EncodingStep) -> (u8, usize) {
    match step {
        EncodingStep::StringSlice(g, _) => {
            let a = *g as usize;
            if a == get_disconnect_packet_reason_string as fn(&MqttPacket) -> &str as usize { (F_REASON, 0) }
            else if a == get_disconnect_packet_server_reference as fn(&MqttPacket) -> &str as usize { (F_SERVER_REF, 0) }
            else { (0, 0) }
        }
        EncodingStep::UserPropertyName(g, i, _) => { if *g as usize == get_disconnect_packet_user_property as fn(&MqttPacket, usize) -> &UserProperty as usize { (F_UP_NAME, *i) } else { (0, 0) } }
        EncodingStep::UserPropertyValue(g, i, _) => { if *g as usize == get_disconnect_packet_user_property as fn(&MqttPacket, usize) -> &UserProperty as usize { (F_UP_VALUE, *i) } else { (0, 0) } }
        _ => (0, 0),
    }
}

/// shape 0: normal disconnection, nothing else (2-byte packet); 1: other reason code, no property; 2: all properties
fn disconnect_body(v5: bool, shape: u8, cap: usize) {
    let sei: u32 = kani::any();
    let rc = match shape { 0 => DisconnectReasonCode::NormalDisconnection, 1 => DisconnectReasonCode::DisconnectWithWillMessage, _ => DisconnectReasonCode::ImplementationSpecificError };
    let inner = DisconnectPacket { reason_code: rc,
        session_expiry_interval_seconds: if shape == 2 { Some(sei) } else { None },
        reason_string: if shape == 2 { Some("why".to_string()) } else { None },
        server_reference: if shape == 2 { Some("s".to_string()) } else { None },
        user_properties: if shape == 2 { Some(vec![UserProperty { name: "n".to_string(), value: "vv".to_string() }]) } else { None } };
    let c = ctx(if v5 { ProtocolVersion::Mqtt5 } else { ProtocolVersion::Mqtt311 }, OutboundAliasResolution::default());
    let mut steps: VecDeque<EncodingStep> = VecDeque::with_capacity(cap);
    let r = if v5 { write_disconnect_encoding_steps5(&inner, &c, &mut steps) } else { write_disconnect_encoding_steps311(&inner, &c, &mut steps) };
    assert!(r.is_ok());
    let mut w = Layout::new();
    w.u8(0xE0);
    if !v5 { w.u8(0); }   // 3.1.1: fixed two-byte packet; K_U8 0 (the real encoder emits a Uint8 step here)
    else {
        let rl = w.hole();
        // MQTT5 3.14.2.1: reason code and property length may be omitted when 0x00 / no properties
        if shape >= 1 { w.u8(match shape { 1 => 0x04, _ => 0x83 }); }
        if shape == 2 {
            let pl = w.hole();
            w.in_props = true;
            w.u8(17); w.u32(sei);
            w.u8(31); w.lp(F_REASON, 0, 3);
            w.u8(28); w.lp(F_SERVER_REF, 0, 1);
            w.u8(38); w.lp(F_UP_NAME, 0, 1); w.lp(F_UP_VALUE, 0, 2);
            w.in_props = false;
            let plen = w.bytes_from(pl + 1, true);
            w.fill(pl, plen);
        }
        let rlen = w.bytes_from(rl + 1, false);
        w.fill(rl, rlen);
    }
    check_steps311_aware(&mut steps, &w, v5);
    std::mem::forget(r); std::mem::forget(steps); std::mem::forget(inner);
}

/// the 3.1.1 encoder writes the zero remaining length as a Uint8 step, the MQTT5 one as a Vli step: same byte on the wire
fn check_steps311_aware(steps: &mut VecDeque<EncodingStep>, w: &Layout, _v5: bool) { check_steps(steps, w, field_of); }

// @gv props=C02 tier=quick required=yes fns=write_disconnect_encoding_steps5,compute_disconnect_packet_length_properties
// @gv bounds="DISCONNECT/MQTT5 minimal form: normal disconnection without properties is the two bytes E0 00"
#[kani::proof]
#[kani::unwind(8)]
#[kani::stub(std::fmt::format, stub_format)]
fn c02_disconnect5_minimal() { disconnect_body(true, 0, 8) }

// @gv props=C02 tier=quick required=yes fns=write_disconnect_encoding_steps5,compute_disconnect_packet_length_properties
// @gv bounds="DISCONNECT/MQTT5 with a non-zero reason code and no property (three bytes)"
#[kani::proof]
#[kani::unwind(8)]
#[kani::stub(std::fmt::format, stub_format)]
fn c02_disconnect5_reason() { disconnect_body(true, 1, 8) }

// @gv props=C02 tier=quick required=yes fns=write_disconnect_encoding_steps5,compute_disconnect_packet_length_properties
// @gv bounds="DISCONNECT/MQTT5 with session expiry (symbolic), reason string, server reference and one user property"
// @gv timeout=1200 mem=5
#[kani::proof]
#[kani::unwind(20)]
#[kani::stub(std::fmt::format, stub_format)]
fn c02_disconnect5_full() { disconnect_body(true, 2, 32) }

// @gv props=C02 tier=quick required=yes fns=write_disconnect_encoding_steps311
// @gv bounds="DISCONNECT/MQTT3.1.1 with every MQTT5-only field set: exactly the two bytes E0 00"
#[kani::proof]
#[kani::unwind(8)]
#[kani::stub(std::fmt::format, stub_format)]
fn c02_disconnect311() { disconnect_body(false, 2, 8) }
