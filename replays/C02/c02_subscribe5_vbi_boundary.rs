// Concrete counterexample produced by Kani/CBMC for harness mqtt::subscribe::gv_enc_subscribe::c02_subscribe5_vbi_boundary (property C02).
// Replay: ./check C02 --replay /verif/replays/C02/c02_subscribe5_vbi_boundary.rs
// module: enc_subscribe_child.rs
// assertion: ""gv: variable-byte-integer step differs from the specified layout""
#[test]
fn kani_concrete_playback_c02_subscribe5_vbi_boundary_14659479371826464848() {
    let concrete_vals: Vec<Vec<u8>> = vec![
        // 0
        vec![0, 0],
        // 134217728
        vec![0, 0, 0, 8],
        // 0
        vec![0],
        // 0
        vec![0],
        // 0
        vec![0],
        // 0
        vec![0],
        // 1
        vec![1],
        // 0
        vec![0],
        // 0
        vec![0],
        // 1
        vec![1],
    ];
    kani::concrete_playback_run(concrete_vals, c02_subscribe5_vbi_boundary);
}
