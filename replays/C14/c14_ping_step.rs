// Concrete counterexample produced by Kani/CBMC for harness protocol::gv_protocol::c14_ping_step (property C14).
// Replay: ./check C14 --replay /verif/replays/C14/c14_ping_step.rs
// module: protocol_child.rs
/// Test generated for harness `protocol::gv_protocol::c14_ping_step` 
///
/// Check for `cover`: "odd keep-alive"
///
/// # Warning
///
/// Concrete playback tests combined with stubs or contracts is highly
/// experimental, and subject to change.
///
/// The original harness has stubs which are not applied to this test.
/// This may cause a mismatch of non-deterministic values if the stub
/// creates any non-deterministic value.
/// The execution path may also differ, which can be used to refine the stub
/// logic.

#[test]
fn kani_concrete_playback_c14_ping_step_10600965241729688999() {
    let concrete_vals: Vec<Vec<u8>> = vec![
        // 24629
        vec![53, 96],
        // 12314ul
        vec![26, 48, 0, 0, 0, 0, 0, 0],
        // 463127042
        vec![2, 194, 154, 27],
        // 1118388220
        vec![252, 63, 169, 66],
        // 1118388220
        vec![252, 63, 169, 66],
    ];
    kani::concrete_playback_run(concrete_vals, c14_ping_step);
}

/// Test generated for harness `protocol::gv_protocol::c14_ping_step` 
///
/// Check for `cover`: "keep-alive of one second"
///
/// # Warning
///
/// Concrete playback tests combined with stubs or contracts is highly
/// experimental, and subject to change.
///
/// The original harness has stubs which are not applied to this test.
/// This may cause a mismatch of non-deterministic values if the stub
/// creates any non-deterministic value.
/// The execution path may also differ, which can be used to refine the stub
/// logic.

#[test]
fn kani_concrete_playback_c14_ping_step_2736207529211872019() {
    let concrete_vals: Vec<Vec<u8>> = vec![
        // 1
        vec![1, 0],
        // 0ul
        vec![0, 0, 0, 0, 0, 0, 0, 0],
        // 0
        vec![0, 0, 0, 0],
        // 1118380030
        vec![254, 31, 169, 66],
        // 1118380030
        vec![254, 31, 169, 66],
    ];
    kani::concrete_playback_run(concrete_vals, c14_ping_step);
}
