// @gv-module parent=gneiss-mqtt/src/protocol.rs name=gv_protocol pkg=gneiss-mqtt
//
// Child module of protocol.rs: sees the private fields and functions of ProtocolState.
// Explicit imports only (the parent's `use std::...::*` globs break #[kani::stub] path resolution).
use super::{ProtocolState, ProtocolStateConfig, ProtocolStateType, NetworkEventContext, NetworkEvent, PacketEvent,
    ClientOperation, ClientOperationOptions, ServiceContext, ProtocolQueueServiceMode, ProtocolQueueType,
    ProtocolEnqueuePosition, OperationTimeoutRecord, OperationResponse,
    does_packet_pass_offline_queue_policy, build_negotiated_settings, sort_operation_deque,
    partition_operations_by_queue_policy, fold_timepoint, fold_optional_timepoint_min};
use crate::mqtt::{MqttPacket, PublishPacket, QualityOfService, PubackPacket, PubrecPacket, PubrelPacket, PubcompPacket,
    ConnackPacket, ConnectPacket, PingreqPacket, PingrespPacket, SubscribePacket, UnsubscribePacket, DisconnectPacket,
    SubackPacket, UnsubackPacket, AuthPacket, Subscription, ConnectReasonCode, PubrecReasonCode};
use crate::client::config::{ConnectOptions, OfflineQueuePolicy, ProtocolMode, PostReconnectQueueDrainPolicy, RejoinSessionPolicy};
use crate::client::{PublishOptionsInternal, PublishOptions, SubscribeOptionsInternal, SubscribeOptions,
    UnsubscribeOptionsInternal, UnsubscribeOptions, ResponseHandler, PublishResult, SubscribeResult, UnsubscribeResult,
    NegotiatedSettings, PublishResponse, Qos2Response};
use crate::error::{GneissError, GneissResult};
use std::cmp::Reverse;
use std::collections::VecDeque;
use std::time::{Duration, Instant};

include!("common.rs");

// ------------------------------------------------------------------------------------------------
// construction helpers
// ------------------------------------------------------------------------------------------------

fn mk_config() -> ProtocolStateConfig {
    ProtocolStateConfig {
        connect_options: ConnectOptions::builder().build(),
        base_timestamp: zero_instant(),
        offline_queue_policy: OfflineQueuePolicy::PreserveAll,
        ping_timeout: Duration::from_secs(30),
        outbound_alias_resolver: None,
        protocol_mode: ProtocolMode::Mqtt5,
        post_reconnect_queue_drain_policy: PostReconnectQueueDrainPolicy::None,
        max_interrupted_retries: None,
    }
}

fn mk_state(s: ProtocolStateType) -> ProtocolState {
    let mut st = ProtocolState::new(mk_config());
    st.state = s;
    st
}

fn any_qos() -> QualityOfService {
    let q: u8 = kani::any();
    kani::assume(q < 3);
    qos_of(q)
}

fn qos_of(q: u8) -> QualityOfService {
    match q { 0 => QualityOfService::AtMostOnce, 1 => QualityOfService::AtLeastOnce, _ => QualityOfService::ExactlyOnce }
}

fn qos_num(q: QualityOfService) -> u8 {
    match q { QualityOfService::AtMostOnce => 0, QualityOfService::AtLeastOnce => 1, QualityOfService::ExactlyOnce => 2 }
}

fn any_policy() -> OfflineQueuePolicy {
    match kani::any::<u8>() % 4 {
        0 => OfflineQueuePolicy::PreserveAll,
        1 => OfflineQueuePolicy::PreserveAcknowledged,
        2 => OfflineQueuePolicy::PreserveQos1PlusPublishes,
        _ => OfflineQueuePolicy::PreserveNothing,
    }
}

fn any_state() -> ProtocolStateType {
    match kani::any::<u8>() % 5 {
        0 => ProtocolStateType::Disconnected,
        1 => ProtocolStateType::PendingConnack,
        2 => ProtocolStateType::Connected,
        3 => ProtocolStateType::PendingDisconnect,
        _ => ProtocolStateType::Halted,
    }
}

// completion recorder: user operations carry a handler that counts its invocations
static mut CALLS: u32 = 0;
static mut OKS: u32 = 0;

fn mk_publish_handler() -> ResponseHandler<PublishResult> {
    Box::new(move |res| {
        unsafe { CALLS += 1; if res.is_ok() { OKS += 1; } }
        std::mem::forget(res);
        Ok(())
    })
}

fn mk_publish_op(id: u64, pid: Option<u16>, qos: QualityOfService, dup: bool) -> ClientOperation {
    ClientOperation {
        id,
        packet: Box::new(MqttPacket::Publish(PublishPacket { packet_id: pid.unwrap_or(0), qos, duplicate: dup, ..Default::default() })),
        qos2_pubrel: None,
        packet_id: pid,
        options: Some(ClientOperationOptions::Publish(PublishOptionsInternal { options: PublishOptions::default(), response_handler: Some(mk_publish_handler()) })),
        ping_extension_base_timepoint: None,
        slow_start_ack_value: 0,
        interruption_count: 0,
    }
}

fn mk_subscribe_op(id: u64, pid: Option<u16>) -> ClientOperation {
    let handler: ResponseHandler<SubscribeResult> = Box::new(move |res| { unsafe { CALLS += 1; if res.is_ok() { OKS += 1; } } std::mem::forget(res); Ok(()) });
    ClientOperation {
        id,
        packet: Box::new(MqttPacket::Subscribe(SubscribePacket { packet_id: pid.unwrap_or(0), ..Default::default() })),
        qos2_pubrel: None,
        packet_id: pid,
        options: Some(ClientOperationOptions::Subscribe(SubscribeOptionsInternal { options: SubscribeOptions::default(), response_handler: Some(handler) })),
        ping_extension_base_timepoint: None,
        slow_start_ack_value: 0,
        interruption_count: 0,
    }
}

fn mk_unsubscribe_op(id: u64, pid: Option<u16>) -> ClientOperation {
    let handler: ResponseHandler<UnsubscribeResult> = Box::new(move |res| { unsafe { CALLS += 1; if res.is_ok() { OKS += 1; } } std::mem::forget(res); Ok(()) });
    ClientOperation {
        id,
        packet: Box::new(MqttPacket::Unsubscribe(UnsubscribePacket { packet_id: pid.unwrap_or(0), ..Default::default() })),
        qos2_pubrel: None,
        packet_id: pid,
        options: Some(ClientOperationOptions::Unsubscribe(UnsubscribeOptionsInternal { options: UnsubscribeOptions::default(), response_handler: Some(handler) })),
        ping_extension_base_timepoint: None,
        slow_start_ack_value: 0,
        interruption_count: 0,
    }
}

fn mk_internal_op(id: u64, packet: MqttPacket) -> ClientOperation {
    ClientOperation { id, packet: Box::new(packet), qos2_pubrel: None, packet_id: None, options: None,
        ping_extension_base_timepoint: None, slow_start_ack_value: 0, interruption_count: 0 }
}

fn publish_of(st: &ProtocolState, id: u64) -> &PublishPacket {
    match &*st.operations.get(&id).unwrap().packet { MqttPacket::Publish(p) => p, _ => panic!("gv: not a publish") }
}

/// i-th element of a deque without VecDeque's Index impl (measured: `deque[i]` after pushes exhausts memory under CBMC,
/// as_slices + slice indexing does not)
fn dq(d: &VecDeque<u64>, i: usize) -> u64 {
    let (a, b) = d.as_slices();
    if i < a.len() { a[i] } else { b[i - a.len()] }
}

fn at(secs: u64) -> Instant { zero_instant() + Duration::from_secs(secs) }

fn net_ctx<'a>(events: &'a mut VecDeque<PacketEvent>, now: Instant) -> NetworkEventContext<'a> {
    NetworkEventContext { event: NetworkEvent::WriteCompletion, current_time: now, packet_events: events }
}

// ------------------------------------------------------------------------------------------------
// C05 inbound publishes
// ------------------------------------------------------------------------------------------------

// @gv props=C05,C11 tier=quick required=yes fns=ProtocolState::handle_publish,ProtocolState::create_operation,ProtocolState::enqueue_operation
// @gv bounds="one inbound PUBLISH, symbolic QoS / packet id / DUP; inbound-QoS2 set holding 0..1 symbolic id; engine state Connected"
// @gv timeout=900 mem=6
#[kani::proof]
#[kani::unwind(4)]
#[kani::stub(std::fmt::format, stub_format)]
fn c05_publish_step() {
    let mut state = mk_state(ProtocolStateType::Connected);
    let k1: u16 = kani::any();
    let has_known: bool = kani::any();
    if has_known { state.qos2_incomplete_incoming_publishes.insert(k1); }
    let pid: u16 = kani::any();
    let q: u8 = kani::any();
    kani::assume(q < 3);
    let publish = PublishPacket { packet_id: pid, qos: qos_of(q), duplicate: kani::any(), ..Default::default() };
    let mut events: VecDeque<PacketEvent> = VecDeque::new();
    let r = {
        let mut ctx = net_ctx(&mut events, zero_instant());
        state.handle_publish(Box::new(MqttPacket::Publish(publish)), &mut ctx)
    };
    assert!(r.is_ok());
    let known = has_known && k1 == pid;
    let dup_qos2 = q == 2 && known;
    kani::cover!(dup_qos2, "duplicate QoS2 delivery suppressed");
    kani::cover!(q == 2 && !known, "fresh QoS2 delivery");
    // surfaced exactly once unless it is a QoS2 identifier that has not been released yet
    assert!(events.len() == if dup_qos2 { 0 } else { 1 });
    if let Some(PacketEvent::Publish(p)) = events.front() { assert!(p.packet_id == pid && qos_num(p.qos) == q); }
    // exactly one acknowledgement of the right type and id
    assert!(state.high_priority_operation_queue.len() == if q == 0 { 0 } else { 1 });
    if q >= 1 {
        let op_id = *state.high_priority_operation_queue.back().unwrap();
        let op = state.operations.get(&op_id).unwrap();
        match &*op.packet {
            MqttPacket::Puback(p) => { assert!(q == 1 && p.packet_id == pid); }
            MqttPacket::Pubrec(p) => { assert!(q == 2 && p.packet_id == pid); }
            _ => { assert!(false); }
        }
        assert!(op.options.is_none() && op.packet_id.is_none());
    }
    // the inbound set: QoS2 id recorded, nothing else changes
    if q == 2 { assert!(state.qos2_incomplete_incoming_publishes.contains(&pid)); }
    assert!(state.qos2_incomplete_incoming_publishes.len() == has_known as usize + if q == 2 && !known { 1 } else { 0 });
    if has_known { assert!(state.qos2_incomplete_incoming_publishes.contains(&k1)); }
    assert!(state.user_operation_queue.is_empty() && state.resubmit_operation_queue.is_empty());
    std::mem::forget(r);
    std::mem::forget(events);
    std::mem::forget(state);
}

// ack ordering: acknowledgements are appended at the BACK, behind whatever is already queued
// @gv props=C05 tier=quick required=yes fns=ProtocolState::handle_publish,ProtocolState::enqueue_operation
// @gv bounds="one earlier ack already queued; inbound PUBLISH of concrete QoS 1 and 2 (one harness each), symbolic id"
// @gv timeout=900 mem=6
#[kani::proof]
#[kani::unwind(4)]
#[kani::stub(std::fmt::format, stub_format)]
fn c05_ack_back_q1() { ack_back(QualityOfService::AtLeastOnce) }

// @gv props=C05 tier=quick required=yes fns=ProtocolState::handle_publish,ProtocolState::enqueue_operation
// @gv bounds="as c05_ack_back_q1 for QoS 2"
// @gv timeout=900 mem=6
#[kani::proof]
#[kani::unwind(4)]
#[kani::stub(std::fmt::format, stub_format)]
fn c05_ack_back_q2() { ack_back(QualityOfService::ExactlyOnce) }

fn ack_back(qos: QualityOfService) {
    let mut state = mk_state(ProtocolStateType::Connected);
    let id0 = state.create_operation(Box::new(MqttPacket::Puback(PubackPacket { packet_id: 77, ..Default::default() })), None);
    state.enqueue_operation(id0, ProtocolQueueType::HighPriority, ProtocolEnqueuePosition::Back);
    let pid: u16 = kani::any();
    let mut events: VecDeque<PacketEvent> = VecDeque::new();
    let r = {
        let mut ctx = net_ctx(&mut events, zero_instant());
        state.handle_publish(Box::new(MqttPacket::Publish(PublishPacket { packet_id: pid, qos, ..Default::default() })), &mut ctx)
    };
    assert!(r.is_ok());
    assert!(state.high_priority_operation_queue.len() == 2);
    assert!(*state.high_priority_operation_queue.front().unwrap() == id0);
    assert!(*state.high_priority_operation_queue.back().unwrap() > id0);
    std::mem::forget(r);
    std::mem::forget(events);
    std::mem::forget(state);
}

fn pubrel_body(n_known: usize) {
    let mut state = mk_state(if kani::any() { ProtocolStateType::Connected } else { ProtocolStateType::PendingDisconnect });
    let k1: u16 = kani::any();
    let k2: u16 = kani::any();
    if n_known >= 1 { state.qos2_incomplete_incoming_publishes.insert(k1); }
    if n_known >= 2 { kani::assume(k2 != k1); state.qos2_incomplete_incoming_publishes.insert(k2); }
    // a stale id stands for an acknowledgement queued earlier: the PUBCOMP must go behind it
    state.high_priority_operation_queue.push_back(900);
    let pid: u16 = kani::any();
    let r = state.handle_pubrel(Box::new(MqttPacket::Pubrel(PubrelPacket { packet_id: pid, ..Default::default() })));
    assert!(r.is_ok());
    let known = (n_known >= 1 && k1 == pid) || (n_known >= 2 && k2 == pid);
    kani::cover!(n_known == 0 || known, "PUBREL releases a known id");
    kani::cover!(!known, "PUBREL for an unknown id");
    assert!(!state.qos2_incomplete_incoming_publishes.contains(&pid));
    assert!(state.qos2_incomplete_incoming_publishes.len() == n_known - if known { 1 } else { 0 });
    if n_known >= 1 && k1 != pid { assert!(state.qos2_incomplete_incoming_publishes.contains(&k1)); }
    if n_known >= 2 && k2 != pid { assert!(state.qos2_incomplete_incoming_publishes.contains(&k2)); }
    assert!(state.high_priority_operation_queue.len() == 2);
    assert!(*state.high_priority_operation_queue.front().unwrap() == 900);
    let op_id = *state.high_priority_operation_queue.back().unwrap();
    match &*state.operations.get(&op_id).unwrap().packet {
        MqttPacket::Pubcomp(p) => { assert!(p.packet_id == pid); }
        _ => { assert!(false); }
    }
    assert!(state.operations.len() == 1);
    std::mem::forget(r);
    std::mem::forget(state);
}

fn two_steps_body(with_release: bool) {
    let mut state = mk_state(ProtocolStateType::Connected);
    let p1: u16 = kani::any();
    let p2: u16 = kani::any();
    let r_id: u16 = kani::any();
    let mut events: VecDeque<PacketEvent> = VecDeque::new();
    {
        let mut ctx = net_ctx(&mut events, zero_instant());
        let r = state.handle_publish(Box::new(MqttPacket::Publish(PublishPacket { packet_id: p1, qos: QualityOfService::ExactlyOnce, ..Default::default() })), &mut ctx);
        assert!(r.is_ok()); std::mem::forget(r);
    }
    if with_release {
        let r = state.handle_pubrel(Box::new(MqttPacket::Pubrel(PubrelPacket { packet_id: r_id, ..Default::default() })));
        assert!(r.is_ok()); std::mem::forget(r);
    }
    {
        let mut ctx = net_ctx(&mut events, zero_instant());
        let r = state.handle_publish(Box::new(MqttPacket::Publish(PublishPacket { packet_id: p2, qos: QualityOfService::ExactlyOnce, duplicate: kani::any(), ..Default::default() })), &mut ctx);
        assert!(r.is_ok()); std::mem::forget(r);
    }
    let released = with_release && r_id == p1;
    let second_surfaced = p1 != p2 || released;
    kani::cover!(p1 == p2 && !released, "redelivery before release is suppressed");
    kani::cover!(!with_release || (p1 == p2 && released), "same id after release is a new message");
    // surfaced exactly once per identifier between first PUBLISH and the PUBREL that releases it; wire order kept
    assert!(events.len() == if second_surfaced { 2 } else { 1 });
    if let Some(PacketEvent::Publish(p)) = events.front() { assert!(p.packet_id == p1); } else { assert!(false); }
    // acknowledgements leave in arrival order: PUBREC(p1) [PUBCOMP(r)] PUBREC(p2)
    let n = state.high_priority_operation_queue.len();
    assert!(n == if with_release { 3 } else { 2 });
    let first = *state.high_priority_operation_queue.front().unwrap();
    let last = *state.high_priority_operation_queue.back().unwrap();
    match &*state.operations.get(&first).unwrap().packet { MqttPacket::Pubrec(p) => assert!(p.packet_id == p1), _ => assert!(false) }
    match &*state.operations.get(&last).unwrap().packet { MqttPacket::Pubrec(p) => assert!(p.packet_id == p2), _ => assert!(false) }
    if with_release {
        let mid = dq(&state.high_priority_operation_queue, 1);
        match &*state.operations.get(&mid).unwrap().packet { MqttPacket::Pubcomp(p) => assert!(p.packet_id == r_id), _ => assert!(false) }
        assert!(first < mid && mid < last);
    }
    assert!(first < last);
    std::mem::forget(events);
    std::mem::forget(state);
}

// @gv props=C05,C06 tier=quick required=yes fns=ProtocolState::apply_session_present_to_connection
// @gv bounds="empty operation queues (no retain/reject decision arises); inbound-QoS2 set with 1..2 symbolic ids; 0..2 symbolic stale packet-id reservations; session flag concrete per branch"
#[kani::proof]
#[kani::unwind(6)]
#[kani::stub(std::fmt::format, stub_format)]
fn c05_session_clears_inbound_set() {
    let mut state = mk_state(ProtocolStateType::Connected);
    let k1: u16 = kani::any();
    let k2: u16 = kani::any();
    kani::assume(k1 != k2);
    state.qos2_incomplete_incoming_publishes.insert(k1);
    let two: bool = kani::any();
    if two { state.qos2_incomplete_incoming_publishes.insert(k2); }
    let present: bool = kani::any();
    let r = if present { state.apply_session_present_to_connection(true) } else { state.apply_session_present_to_connection(false) };
    assert!(r.is_ok());
    kani::cover!(present, "session resumed");
    kani::cover!(!present, "session lost");
    if present {
        assert!(state.qos2_incomplete_incoming_publishes.contains(&k1));
        assert!(state.qos2_incomplete_incoming_publishes.len() == if two { 2 } else { 1 });
    } else {
        assert!(state.qos2_incomplete_incoming_publishes.is_empty());
        assert!(state.allocated_packet_ids.is_empty());
    }
    std::mem::forget(r);
    std::mem::forget(state);
}

// ------------------------------------------------------------------------------------------------
// C06 packet identifiers
// ------------------------------------------------------------------------------------------------

// @gv props=C06,C11 tier=quick required=yes fns=ProtocolState::acquire_free_packet_id
// @gv bounds="three symbolic distinct non-zero ids already reserved, symbolic non-zero allocator cursor (all 65535 positions incl. wrap 65535->1)"
#[kani::proof]
#[kani::unwind(6)]
#[kani::stub(std::fmt::format, stub_format)]
fn c06_alloc() {
    let mut st = mk_state(ProtocolStateType::Connected);
    let (a, b, c): (u16, u16, u16) = (kani::any(), kani::any(), kani::any());
    kani::assume(a != 0 && b != 0 && c != 0 && a != b && b != c && a != c);
    st.allocated_packet_ids.insert(a, 1);
    st.allocated_packet_ids.insert(b, 2);
    st.allocated_packet_ids.insert(c, 3);
    let start: u16 = kani::any();
    kani::assume(start != 0);
    st.next_packet_id = start;
    let r = st.acquire_free_packet_id(9);
    let id = match &r { Ok(v) => *v, Err(_) => { assert!(false); 0 } };
    kani::cover!(id < start, "allocator wrapped 65535 -> 1");
    kani::cover!(id != start, "cursor position was taken, search advanced");
    assert!(id != 0 && id != a && id != b && id != c);
    assert!(st.allocated_packet_ids.get(&id) == Some(&9));
    assert!(st.allocated_packet_ids.len() == 4);
    assert!(st.allocated_packet_ids.get(&a) == Some(&1) && st.allocated_packet_ids.get(&b) == Some(&2) && st.allocated_packet_ids.get(&c) == Some(&3));
    assert!(st.next_packet_id != 0);
    // the id handed out is the first free one at or after the cursor (cyclically)
    let mut e = start;
    let mut guard = 0;
    while (e == a || e == b || e == c) && guard < 3 { e = if e == u16::MAX { 1 } else { e + 1 }; guard += 1; }
    assert!(id == e);
    std::mem::forget(r);
    std::mem::forget(st);
}

// @gv props=C06,C04 tier=quick required=yes fns=ProtocolState::acquire_packet_id_for_operation,ClientOperation::bind_packet_id
// @gv bounds="one operation of each kind (QoS0/1/2 publish, subscribe, unsubscribe, internal PUBACK), unbound or already bound to a symbolic id; one other symbolic reservation; symbolic cursor"
#[kani::proof]
#[kani::unwind(6)]
#[kani::stub(std::fmt::format, stub_format)]
fn c06_bind() {
    let mut st = mk_state(ProtocolStateType::Connected);
    let other: u16 = kani::any();
    kani::assume(other != 0);
    st.allocated_packet_ids.insert(other, 1);
    let start: u16 = kani::any();
    kani::assume(start != 0);
    st.next_packet_id = start;
    let kind: u8 = kani::any();
    kani::assume(kind < 6);
    let bound: bool = kani::any();
    let pid: u16 = kani::any();
    kani::assume(pid != 0 && pid != other);
    let b = if bound && kind != 0 && kind != 5 { Some(pid) } else { None };
    let op = match kind {
        0 => mk_publish_op(7, None, QualityOfService::AtMostOnce, false),
        1 => mk_publish_op(7, b, QualityOfService::AtLeastOnce, bound),
        2 => mk_publish_op(7, b, QualityOfService::ExactlyOnce, bound),
        3 => mk_subscribe_op(7, b),
        4 => mk_unsubscribe_op(7, b),
        _ => mk_internal_op(7, MqttPacket::Puback(PubackPacket { packet_id: 5, ..Default::default() })),
    };
    if b.is_some() { st.allocated_packet_ids.insert(pid, 7); }
    st.operations.insert(7, op);
    let r = st.acquire_packet_id_for_operation(7);
    assert!(r.is_ok());
    let op = st.operations.get(&7).unwrap();
    kani::cover!(b.is_some(), "already bound: retransmission");
    kani::cover!(b.is_none() && kind >= 1 && kind <= 4, "fresh binding");
    if kind == 0 || kind == 5 {
        assert!(op.packet_id.is_none());
        assert!(st.allocated_packet_ids.len() == 1);
    } else if let Some(orig) = b {
        // retransmission reuses the original identifier
        assert!(op.packet_id == Some(orig));
        assert!(st.allocated_packet_ids.len() == 2 && st.allocated_packet_ids.get(&orig) == Some(&7));
    } else {
        let got = op.packet_id.unwrap();
        assert!(got != 0 && got != other);
        assert!(st.allocated_packet_ids.get(&got) == Some(&7));
        assert!(st.allocated_packet_ids.len() == 2);
    }
    // the packet carries the bound id
    match &*op.packet {
        MqttPacket::Publish(p) => assert!(p.packet_id == op.packet_id.unwrap_or(0)),
        MqttPacket::Subscribe(p) => assert!(Some(p.packet_id) == op.packet_id),
        MqttPacket::Unsubscribe(p) => assert!(Some(p.packet_id) == op.packet_id),
        _ => {}
    }
    std::mem::forget(r);
    std::mem::forget(st);
}

// @gv props=C06,C04 tier=quick required=yes fns=ProtocolState::apply_session_present_to_connection,ProtocolState::unbind_operation_packet_id
// @gv bounds="session lost (CONNACK without session): a SUBSCRIBE / UNSUBSCRIBE (symbolic) that had been written and was re-queued to the user queue at close still holds a symbolic packet id; one stale reservation; inbound QoS2 set non-empty"
// @gv timeout=900
#[kani::proof]
#[kani::unwind(6)]
#[kani::stub(std::fmt::format, stub_format)]
fn c06_session_absent_restarts_user_queue() {
    let mut st = mk_state(ProtocolStateType::Connected);
    let (pid, other): (u16, u16) = (kani::any(), kani::any());
    kani::assume(pid != 0 && other != 0 && pid != other);
    let op = if kani::any() { mk_subscribe_op(5, Some(pid)) } else { mk_unsubscribe_op(5, Some(pid)) };
    st.operations.insert(5, op);
    st.allocated_packet_ids.insert(pid, 5);
    st.allocated_packet_ids.insert(other, 77);
    st.user_operation_queue.push_back(5);
    let r = st.apply_session_present_to_connection(false);
    assert!(r.is_ok());
    // the operation starts over: it gives its identifier back (it will get a fresh, reserved one when it is sent again)
    let o = st.operations.get(&5).unwrap();
    assert!(o.packet_id.is_none());
    match &*o.packet { MqttPacket::Subscribe(x) => assert!(x.packet_id == 0), MqttPacket::Unsubscribe(x) => assert!(x.packet_id == 0), _ => assert!(false) }
    assert!(st.allocated_packet_ids.is_empty());
    assert!(st.user_operation_queue.len() == 1 && *st.user_operation_queue.front().unwrap() == 5);
    assert!(unsafe { CALLS } == 0);
    std::mem::forget(r); std::mem::forget(st);
}

// @gv props=C06 tier=quick required=yes fns=ProtocolState::unbind_operation_packet_id,ClientOperation::unbind_packet_id
// @gv bounds="one bound publish/subscribe/unsubscribe with symbolic id plus one other symbolic reservation"
#[kani::proof]
#[kani::unwind(6)]
#[kani::stub(std::fmt::format, stub_format)]
fn c06_unbind() {
    let mut st = mk_state(ProtocolStateType::Connected);
    let other: u16 = kani::any();
    let pid: u16 = kani::any();
    kani::assume(other != 0 && pid != 0 && pid != other);
    st.allocated_packet_ids.insert(other, 1);
    st.allocated_packet_ids.insert(pid, 7);
    let kind: u8 = kani::any();
    kani::assume(kind < 3);
    let op = match kind { 0 => mk_publish_op(7, Some(pid), QualityOfService::AtLeastOnce, true), 1 => mk_subscribe_op(7, Some(pid)), _ => mk_unsubscribe_op(7, Some(pid)) };
    st.operations.insert(7, op);
    st.unbind_operation_packet_id(7);
    let op = st.operations.get(&7).unwrap();
    assert!(op.packet_id.is_none());
    assert!(st.allocated_packet_ids.len() == 1 && st.allocated_packet_ids.get(&other) == Some(&1) && !st.allocated_packet_ids.contains_key(&pid));
    match &*op.packet {
        MqttPacket::Publish(p) => assert!(p.packet_id == 0),
        MqttPacket::Subscribe(p) => assert!(p.packet_id == 0),
        MqttPacket::Unsubscribe(p) => assert!(p.packet_id == 0),
        _ => assert!(false),
    }
    // unknown operation id: nothing happens
    st.unbind_operation_packet_id(8);
    assert!(st.allocated_packet_ids.len() == 1);
    std::mem::forget(st);
}

// ------------------------------------------------------------------------------------------------
// shared small-state family for queue / flow-control / service-time harnesses (C08 C09 C10)
// ------------------------------------------------------------------------------------------------

#[derive(Copy, Clone, PartialEq, Eq)]
enum Loc { User, Resubmit, High, Absent }

fn any_loc() -> Loc {
    match kani::any::<u8>() % 4 { 0 => Loc::User, 1 => Loc::Resubmit, 2 => Loc::High, _ => Loc::Absent }
}

fn place(st: &mut ProtocolState, id: u64, loc: Loc) {
    match loc {
        Loc::User => st.user_operation_queue.push_back(id),
        Loc::Resubmit => st.resubmit_operation_queue.push_back(id),
        Loc::High => st.high_priority_operation_queue.push_back(id),
        Loc::Absent => {}
    }
}

/// Connected engine with symbolic flow-control state: receive maximum, slow-start counter, drain policy,
/// write-pending flag; npend pending publishes and nsub pending subscribes (stale table entries: only the table
/// sizes are read by the functions under test).
fn flow_state(npend: usize, nsub: usize) -> ProtocolState {
    let mut cfg = mk_config();
    cfg.post_reconnect_queue_drain_policy = if kani::any() { PostReconnectQueueDrainPolicy::OneAtATime } else { PostReconnectQueueDrainPolicy::None };
    let mut st = ProtocolState::new(cfg);
    st.state = ProtocolStateType::Connected;
    let rm: u16 = kani::any();
    st.current_settings = Some(NegotiatedSettings { receive_maximum_from_server: rm, ..Default::default() });
    // table SIZES are concrete per harness (a conditional insert makes the model's length symbolic: measured OOM);
    // the comparison `pending >= receive maximum` is still fully explored through the symbolic receive maximum
    if npend >= 1 { st.pending_publish_operations.insert(100, 50); }
    if npend >= 2 { st.pending_publish_operations.insert(101, 51); }
    if nsub >= 1 { st.pending_non_publish_operations.insert(102, 52); }
    st.slow_start_ack_count = kani::any();
    st.pending_write_completion = kani::any();
    st
}

fn is_qos_publish(st: &ProtocolState, id: u64) -> bool {
    match st.operations.get(&id) {
        Some(op) => match &*op.packet { MqttPacket::Publish(p) => p.qos != QualityOfService::AtMostOnce, _ => false },
        None => false,
    }
}

fn rm_limit(st: &ProtocolState) -> usize {
    match &st.current_settings { Some(s) => s.receive_maximum_from_server as usize, None => usize::MAX }
}

fn throttled(st: &ProtocolState) -> bool {
    st.config.post_reconnect_queue_drain_policy == PostReconnectQueueDrainPolicy::OneAtATime
        && st.state == ProtocolStateType::Connected && st.slow_start_ack_count > 0
        && (!st.pending_publish_operations.is_empty() || !st.pending_non_publish_operations.is_empty())
}

/// Specification of which operation may leave the queues next (C09 gate, C10 priority): written from the
/// property text, independent of dequeue_operation.
fn oracle_next(st: &ProtocolState, all: bool) -> Option<u64> {
    if st.pending_write_completion { return None; }
    if let Some(h) = st.high_priority_operation_queue.front() { return Some(*h); }
    if !all { return None; }
    if throttled(st) { return None; }
    let head = match st.resubmit_operation_queue.front() { Some(h) => Some(*h), None => st.user_operation_queue.front().copied() };
    match head {
        Some(h) => {
            if is_qos_publish(st, h) && st.pending_publish_operations.len() >= rm_limit(st) { None } else { Some(h) }
        }
        None => None,
    }
}

fn dequeue_mirror_body(npend: usize, nsub: usize, can_block: bool, op_a: ClientOperation, la: Loc, op_b: Option<(ClientOperation, Loc)>) {
    let mut st = flow_state(npend, nsub);
    st.operations.insert(1, op_a);
    place(&mut st, 1, la);
    let mut nothing_queued = la == Loc::Absent;
    if let Some((b, lb)) = op_b {
        st.operations.insert(2, b);
        place(&mut st, 2, lb);
        if lb != Loc::Absent { nothing_queued = false; }
    }
    let all: bool = kani::any();
    let mode = if all { ProtocolQueueServiceMode::All } else { ProtocolQueueServiceMode::HighPriorityOnly };
    st.current_time = at(kani::any::<u32>() as u64);
    let expect = oracle_next(&st, all);
    let tp = st.get_next_service_timepoint_protocol_queue(mode);
    let pend_before = st.pending_publish_operations.len();
    let got = st.dequeue_operation(mode);
    kani::cover!(got.is_some() || nothing_queued, "an operation is dequeued");
    kani::cover!(!can_block || (got.is_none() && !st.pending_write_completion && all), "nothing leaves although no write is pending (flow control / slow start)");
    // C10 / C09: exactly the operation the specification allows leaves, nothing overtakes a blocked head
    assert!(got == expect);
    // C08: the reported service time mirrors the dequeue rule: "now" iff there is sendable work
    assert!(tp.is_some() == got.is_some());
    if let Some(t) = tp { assert!(t == st.current_time); }
    // (C09: the oracle only releases a QoS>0 publish from the resubmit/user queue below the receive maximum)
    std::mem::forget(st);
}

// ------------------------------------------------------------------------------------------------
// C08 timers
// ------------------------------------------------------------------------------------------------

fn opt_time() -> Option<Instant> { if kani::any() { Some(at(kani::any::<u32>() as u64)) } else { None } }

fn omin(a: Option<Instant>, b: Option<Instant>) -> Option<Instant> {
    match (a, b) { (Some(x), Some(y)) => Some(if x <= y { x } else { y }), (Some(x), None) => Some(x), (None, y) => y }
}

fn timers_body(n_rec: usize, loc: Loc) {
    let mut st = mk_state(ProtocolStateType::Connected);
    st.current_time = at(kani::any::<u32>() as u64);
    st.next_ping_timepoint = opt_time();
    st.ping_timeout_timepoint = opt_time();
    let t1 = at(kani::any::<u32>() as u64);
    let t2 = at(kani::any::<u32>() as u64);
    if n_rec >= 1 { st.operation_ack_timeouts.push(Reverse(OperationTimeoutRecord { id: 11, timeout: t1 })); }
    if n_rec >= 2 { st.operation_ack_timeouts.push(Reverse(OperationTimeoutRecord { id: 12, timeout: t2 })); }
    let earliest_ack = if n_rec == 0 { None } else if n_rec == 1 { Some(t1) } else { Some(if t1 <= t2 { t1 } else { t2 }) };
    st.pending_write_completion = kani::any();
    if loc != Loc::Absent { st.operations.insert(1, mk_publish_op(1, None, QualityOfService::AtMostOnce, false)); place(&mut st, 1, loc); }
    let connack_deadline = at(kani::any::<u32>() as u64);
    st.connack_timeout_timepoint = Some(connack_deadline);

    // connected: min(ping deadline, earliest ack timeout) always; plus ping-due time and "now if work is sendable" unless a write is pending
    let work_now = if !st.pending_write_completion && loc != Loc::Absent { Some(st.current_time) } else { None };
    let always = omin(st.ping_timeout_timepoint, earliest_ack);
    let expect_connected = if st.pending_write_completion { always } else { omin(omin(always, st.next_ping_timepoint), work_now) };
    let got = st.get_next_service_timepoint_connected();
    kani::cover!(got.is_none() || n_rec > 0 || loc != Loc::Absent, "nothing scheduled");
    kani::cover!(n_rec < 2 || (got == earliest_ack && t2 < t1), "second ack-timeout record is the earliest");
    assert!(got == expect_connected);

    // pending connack: the CONNACK deadline, or now when a high-priority operation can be sent
    let work_high = if !st.pending_write_completion && loc == Loc::High { Some(st.current_time) } else { None };
    assert!(st.get_next_service_timepoint_pending_connack() == omin(work_high, Some(connack_deadline)));
    // pending disconnect: high-priority work or the earliest ack timeout
    assert!(st.get_next_service_timepoint_pending_disconnect() == omin(work_high, earliest_ack));
    std::mem::forget(st);
}

// ------------------------------------------------------------------------------------------------
// C09 counting
// ------------------------------------------------------------------------------------------------

fn fully_written_body(npend: usize, nsub: usize, op: ClientOperation, is_qos_pub: bool, is_subunsub: bool, is_disconnect: bool) {
    let mut st = flow_state(npend, nsub);
    st.pending_write_completion = false;
    let pid = op.packet_id;
    st.operations.insert(1, op);
    st.current_operation = Some(1);
    let pp = st.pending_publish_operations.len();
    let pn = st.pending_non_publish_operations.len();
    let now = at(kani::any::<u32>() as u64);
    st.on_current_operation_fully_written(now);
    assert!(st.current_operation.is_none());
    // exactly the QoS>0 publish that was just written joins the in-flight table: the count rises by one per gate passage
    assert!(st.pending_publish_operations.len() == pp + if is_qos_pub { 1 } else { 0 });
    assert!(st.pending_non_publish_operations.len() == pn + if is_subunsub { 1 } else { 0 });
    if is_qos_pub { assert!(st.pending_publish_operations.get(&pid.unwrap()) == Some(&1)); }
    if is_subunsub { assert!(st.pending_non_publish_operations.get(&pid.unwrap()) == Some(&1)); }
    assert!(st.pending_write_completion_operations.len() == if is_qos_pub || is_subunsub { 0 } else { 1 });
    assert!((st.state == ProtocolStateType::PendingDisconnect) == is_disconnect);
    assert!(st.operations.get(&1).unwrap().ping_extension_base_timepoint == Some(now));
    std::mem::forget(st);
}

// @gv props=C18,C09 tier=quick required=yes fns=ProtocolState::on_current_operation_fully_written,ProtocolState::start_operation_ack_timeout
// @gv bounds="a QoS1 publish / SUBSCRIBE (symbolic) with a symbolic ack timeout (whole seconds < 2^32) becomes fully written at a symbolic time: exactly then the ack timer is armed, for that time + T; nothing is armed before"
// @gv timeout=900
#[kani::proof]
#[kani::unwind(5)]
#[kani::stub(std::fmt::format, stub_format)]
fn c18_armed_when_fully_written() {
    let mut st = mk_state(ProtocolStateType::Connected);
    let t = Duration::from_secs(kani::any::<u32>() as u64);
    let pid: u16 = kani::any();
    kani::assume(pid != 0);
    let op = if kani::any() {
        let mut o = mk_publish_op(1, Some(pid), QualityOfService::AtLeastOnce, false);
        if let Some(ClientOperationOptions::Publish(x)) = &mut o.options { x.options.ack_timeout = Some(t); }
        o
    } else {
        let mut o = mk_subscribe_op(1, Some(pid));
        if let Some(ClientOperationOptions::Subscribe(x)) = &mut o.options { x.options.ack_timeout = Some(t); }
        o
    };
    st.operations.insert(1, op);
    st.current_operation = Some(1);
    // time spent queued or being encoded does not count: nothing is armed yet
    assert!(st.operation_ack_timeouts.is_empty());
    let now = at(kani::any::<u32>() as u64);
    st.on_current_operation_fully_written(now);
    assert!(st.operation_ack_timeouts.len() == 1, "gv: the ack timeout is armed when the packet has been completely written");
    let rec = st.operation_ack_timeouts.peek().unwrap().0;
    assert!(rec.id == 1 && rec.timeout == now + t, "gv: the ack deadline is T after the packet was completely written");
    std::mem::forget(st);
}

fn written_publish_body(npend: usize, nsub: usize) {
    let q = any_qos();
    let pid: u16 = kani::any();
    kani::assume(pid != 0 && pid != 100 && pid != 101);
    let bound = if q == QualityOfService::AtMostOnce { None } else { Some(pid) };
    fully_written_body(npend, nsub, mk_publish_op(1, bound, q, false), q != QualityOfService::AtMostOnce, false, false);
}

fn written_other_body(k: usize) {
    let pid: u16 = kani::any();
    kani::assume(pid != 0 && pid != 102);
    match k {
        0 => fully_written_body(1, 1, mk_subscribe_op(1, Some(pid)), false, true, false),
        1 => fully_written_body(1, 1, mk_internal_op(1, MqttPacket::Disconnect(DisconnectPacket { ..Default::default() })), false, false, true),
        _ => fully_written_body(1, 1, mk_internal_op(1, MqttPacket::Pingreq(PingreqPacket {})), false, false, false),
    }
}

// @gv props=C09 tier=quick required=yes fns=ProtocolState::apply_slow_start_initialization,ProtocolState::initialize_slow_start,ProtocolState::apply_ackable_completion
// @gv bounds="two operations: one pending (publish, symbolic QoS>0) and one merely queued; drain policy symbolic; stale slow-start marks symbolic"
// @gv timeout=900 mem=6
#[kani::proof]
#[kani::unwind(6)]
#[kani::stub(std::fmt::format, stub_format)]
fn c09_slow_start_counting() {
    let mut cfg = mk_config();
    let one = kani::any::<bool>();
    cfg.post_reconnect_queue_drain_policy = if one { PostReconnectQueueDrainPolicy::OneAtATime } else { PostReconnectQueueDrainPolicy::None };
    let mut st = ProtocolState::new(cfg);
    st.state = ProtocolStateType::Connected;
    let pid: u16 = kani::any();
    kani::assume(pid != 0);
    let mut a = mk_publish_op(1, Some(pid), if kani::any() { QualityOfService::AtLeastOnce } else { QualityOfService::ExactlyOnce }, false);
    let mut b = mk_publish_op(2, None, QualityOfService::AtLeastOnce, false);
    let stale_a: u32 = kani::any();
    let stale_b: u32 = kani::any();
    kani::assume(stale_a <= 1 && stale_b <= 1);
    a.slow_start_ack_value = stale_a;
    b.slow_start_ack_value = stale_b;
    st.operations.insert(1, a);
    st.operations.insert(2, b);
    st.pending_publish_operations.insert(pid, 1);
    st.allocated_packet_ids.insert(pid, 1);
    st.user_operation_queue.push_back(2);
    st.apply_slow_start_initialization();
    if one {
        // exactly the interrupted (written, unacknowledged) operation is marked
        assert!(st.operations.get(&1).unwrap().slow_start_ack_value == 1);
        assert!(st.operations.get(&2).unwrap().slow_start_ack_value == 0);
    } else {
        assert!(st.operations.get(&1).unwrap().slow_start_ack_value == stale_a);
    }
    st.slow_start_ack_count = kani::any();
    let before = st.slow_start_ack_count;
    st.initialize_slow_start();
    if one { assert!(st.slow_start_ack_count == 1); } else { assert!(st.slow_start_ack_count == before); }
    // completion of the marked operation brings the counter back to zero; the invariant panic is unreachable
    let op = st.operations.remove(&1).unwrap();
    st.apply_ackable_completion(&op);
    if one { assert!(st.slow_start_ack_count == 0); }
    let op2 = st.operations.remove(&2).unwrap();
    st.apply_ackable_completion(&op2);
    if one { assert!(st.slow_start_ack_count == 0); }
    std::mem::forget(op); std::mem::forget(op2);
    std::mem::forget(st);
}

// ------------------------------------------------------------------------------------------------
// C10 sort
// ------------------------------------------------------------------------------------------------

fn ring(cap: usize, head: usize, vals: &[u64]) -> VecDeque<u64> {
    let mut d: VecDeque<u64> = VecDeque::with_capacity(cap);
    let mut i = 0;
    while i < head { d.push_back(0); i += 1; }
    let mut i = 0;
    while i < head { d.pop_front(); i += 1; }
    let mut i = 0;
    while i < vals.len() { d.push_back(vals[i]); i += 1; }
    d
}

fn sort_body(cap: usize, head: usize, n: usize, expect_wrapped: bool) {
    let vals: [u64; 4] = kani::any();
    let mut d = ring(cap, head, &vals[..n]);
    assert!(d.capacity() == cap);
    let wrapped = d.as_slices().1.len() > 0;
    kani::cover!(wrapped == expect_wrapped, "ring layout as intended");
    assert!(wrapped == expect_wrapped);
    sort_operation_deque(&mut d);
    assert!(d.len() == n);
    let mut i = 0;
    while i + 1 < n { assert!(d[i] <= d[i + 1]); i += 1; }
    // same multiset: every input value occurs as often in the output as in the input
    let mut i = 0;
    while i < n {
        let v = vals[i];
        let mut ci = 0; let mut co = 0; let mut j = 0;
        while j < n { if vals[j] == v { ci += 1; } if d[j] == v { co += 1; } j += 1; }
        assert!(ci == co);
        i += 1;
    }
    std::mem::forget(d);
}

// @gv props=C10 tier=quick required=yes fns=sort_operation_deque
// @gv bounds="VecDeque<u64> capacity 4, head offset 3, 3 symbolic ids (ring buffer wrapped)"
#[kani::proof]
#[kani::unwind(8)]
fn c10_sort_cap4_head3_n3() { sort_body(4, 3, 3, true) }

// @gv props=C10 tier=quick required=yes fns=sort_operation_deque
// @gv bounds="capacity 4, head offset 2, 4 symbolic ids (full and wrapped)"
#[kani::proof]
#[kani::unwind(8)]
fn c10_sort_cap4_head2_n4() { sort_body(4, 2, 4, true) }

// @gv props=C10 tier=quick required=yes fns=sort_operation_deque
// @gv bounds="capacity 4, head offset 0, 4 symbolic ids (contiguous)"
#[kani::proof]
#[kani::unwind(8)]
fn c10_sort_cap4_head0_n4() { sort_body(4, 0, 4, false) }

// @gv props=C10 tier=quick required=yes fns=sort_operation_deque
// @gv bounds="capacity 4, head offset 1, 2 symbolic ids (contiguous, offset)"
#[kani::proof]
#[kani::unwind(8)]
fn c10_sort_cap4_head1_n2() { sort_body(4, 1, 2, false) }

// @gv props=C10 tier=thorough required=no fns=sort_operation_deque
// @gv bounds="capacity 8, head offset 6, 4 symbolic ids (wrapped 2+2)"
#[kani::proof]
#[kani::unwind(10)]
fn c10_sort_cap8_head6_n4() { sort_body(8, 6, 4, true) }

// @gv props=C10 tier=thorough required=no fns=sort_operation_deque
// @gv bounds="capacity 8, head offset 7, 4 symbolic ids (wrapped 1+3)"
#[kani::proof]
#[kani::unwind(10)]
fn c10_sort_cap8_head7_n4() { sort_body(8, 7, 4, true) }

// @gv props=C10 tier=thorough required=no fns=sort_operation_deque
// @gv bounds="capacity 4, head offset 1, 4 symbolic ids (wrapped 3+1)"
#[kani::proof]
#[kani::unwind(8)]
fn c10_sort_cap4_head1_n4() { sort_body(4, 1, 4, true) }


// ------------------------------------------------------------------------------------------------
// C14 keep-alive
// ------------------------------------------------------------------------------------------------

fn keepalive_state(k: u16, ping_timeout: Duration) -> ProtocolState {
    let mut cfg = mk_config();
    cfg.ping_timeout = ping_timeout;
    let mut st = ProtocolState::new(cfg);
    st.state = ProtocolStateType::Connected;
    st.current_settings = Some(NegotiatedSettings { server_keep_alive: k, ..Default::default() });
    st
}

/// K/2 seconds in exact arithmetic (K * 500 ms) without dividing a symbol by 1000
fn half_keep_alive(k: u16) -> Duration { Duration::new((k / 2) as u64, ((k % 2) as u32) * 500_000_000) }

// @gv props=C14,C11 tier=quick required=yes fns=ProtocolState::service_keep_alive
// @gv bounds="every keep-alive K in 1..65535, every ping timeout Duration, clock and due time symbolic whole seconds (< 2^32, due <= now), no ping outstanding"
// @gv timeout=900
#[kani::proof]
#[kani::unwind(4)]
#[kani::stub(std::fmt::format, stub_format)]
fn c14_ping_step() {
    let k: u16 = kani::any();
    kani::assume(k >= 1);
    let pt = any_duration();
    let mut st = keepalive_state(k, pt);
    let now_s: u32 = kani::any();
    let due_s: u32 = kani::any();
    kani::assume(due_s <= now_s);
    let now = at(now_s as u64);
    st.next_ping_timepoint = Some(at(due_s as u64));
    st.ping_timeout_timepoint = None;
    let mut to_socket: Vec<u8> = Vec::with_capacity(16);
    let r = {
        let mut sctx = ServiceContext { to_socket: &mut to_socket, current_time: now };
        st.service_keep_alive(&mut sctx)
    };
    assert!(r.is_ok());
    kani::cover!(k % 2 == 1, "odd keep-alive");
    kani::cover!(k == 1, "keep-alive of one second");
    kani::cover!(pt < half_keep_alive(k), "configured ping timeout shorter than K/2");
    // a PINGREQ goes to the FRONT of the high-priority queue
    assert!(st.high_priority_operation_queue.len() == 1);
    let id = *st.high_priority_operation_queue.front().unwrap();
    assert!(matches!(&*st.operations.get(&id).unwrap().packet, MqttPacket::Pingreq(_)));
    // deadline = now + min(ping timeout, K/2); next ping K seconds after this one
    let half = half_keep_alive(k);
    let expect = if pt < half { pt } else { half };
    assert!(st.ping_timeout_timepoint == Some(now + expect));
    assert!(st.next_ping_timepoint == Some(now + Duration::from_secs(k as u64)));
    assert!(to_socket.is_empty());
    std::mem::forget(r);
    std::mem::forget(st);
}

// @gv props=C14,C11 tier=quick required=yes fns=ProtocolState::service_keep_alive
// @gv bounds="a ping outstanding with symbolic deadline, clock symbolic (seconds + nanoseconds), next-ping time present or absent; and no ping outstanding with the next ping not yet due"
// @gv timeout=900
#[kani::proof]
#[kani::unwind(4)]
#[kani::stub(std::fmt::format, stub_format)]
fn c14_deadline() {
    let k: u16 = kani::any();
    let mut st = keepalive_state(k, any_duration());
    let now = zero_instant() + Duration::new(kani::any::<u32>() as u64, kani::any::<u32>() % 1_000_000_000);
    let deadline = zero_instant() + Duration::new(kani::any::<u32>() as u64, kani::any::<u32>() % 1_000_000_000);
    let outstanding: bool = kani::any();
    let next = opt_time();
    st.ping_timeout_timepoint = if outstanding { Some(deadline) } else { None };
    st.next_ping_timepoint = next;
    if !outstanding { if let Some(n) = next { kani::assume(n > now); } }
    let mut to_socket: Vec<u8> = Vec::with_capacity(16);
    let r = {
        let mut sctx = ServiceContext { to_socket: &mut to_socket, current_time: now };
        st.service_keep_alive(&mut sctx)
    };
    kani::cover!(outstanding && now == deadline, "service exactly at the deadline");
    kani::cover!(outstanding && now < deadline, "service before the deadline");
    // failed exactly at (not before) the deadline; a live peer is never timed out early
    assert!(r.is_err() == (outstanding && now >= deadline));
    // never a second ping while one is outstanding, nothing when not yet due; timers untouched
    assert!(st.high_priority_operation_queue.is_empty());
    assert!(st.ping_timeout_timepoint == if outstanding { Some(deadline) } else { None });
    assert!(st.next_ping_timepoint == next);
    std::mem::forget(r);
    std::mem::forget(st);
}

// @gv props=C14,C11 tier=quick required=yes fns=ProtocolState::handle_pingresp
// @gv bounds="all five engine states x ping outstanding or not"
#[kani::proof]
#[kani::unwind(4)]
#[kani::stub(std::fmt::format, stub_format)]
fn c14_pingresp() {
    let mut st = mk_state(any_state());
    let outstanding: bool = kani::any();
    let next = opt_time();
    st.ping_timeout_timepoint = if outstanding { Some(at(kani::any::<u32>() as u64)) } else { None };
    st.next_ping_timepoint = next;
    let r = st.handle_pingresp();
    let live = st.state == ProtocolStateType::Connected || st.state == ProtocolStateType::PendingDisconnect;
    kani::cover!(live && outstanding, "answer to an outstanding ping");
    kani::cover!(live && !outstanding, "unsolicited PINGRESP");
    assert!(r.is_ok() == (live && outstanding));
    if r.is_ok() { assert!(st.ping_timeout_timepoint.is_none()); }
    assert!(st.next_ping_timepoint == next);
    std::mem::forget(r);
    std::mem::forget(st);
}

fn extension_body(op: ClientOperation, acked_kind: bool) {
    let k: u16 = kani::any();
    let mut st = keepalive_state(k, Duration::from_secs(30));
    let old = opt_time();
    st.next_ping_timepoint = old;
    let base = opt_time();
    let mut op = op;
    op.ping_extension_base_timepoint = base;
    st.apply_ping_extension_on_operation_success(&op);
    kani::cover!(acked_kind && base.is_some() && old.is_some() && st.next_ping_timepoint != old, "next ping pushed out");
    let expect = match (acked_kind, base, old) {
        (true, Some(b), Some(o)) => { let cand = b + Duration::from_secs(k as u64); Some(if cand > o { cand } else { o }) }
        _ => old,
    };
    // next ping = max(old, transmission time + K) for acknowledged kinds; never later than K after that transmission
    assert!(st.next_ping_timepoint == expect);
    std::mem::forget(op);
    std::mem::forget(st);
}

// @gv props=C14 tier=quick required=yes fns=ProtocolState::apply_ping_extension_on_operation_success
// @gv bounds="completed publish with symbolic QoS; symbolic keep-alive, transmission time and current next-ping time (present/absent)"
#[kani::proof]
#[kani::unwind(4)]
#[kani::stub(std::fmt::format, stub_format)]
fn c14_extension_publish() {
    let q = any_qos();
    extension_body(mk_publish_op(1, None, q, false), q != QualityOfService::AtMostOnce);
}

// @gv props=C14 tier=quick required=yes fns=ProtocolState::apply_ping_extension_on_operation_success
// @gv bounds="completed SUBSCRIBE / UNSUBSCRIBE / PINGREQ (symbolic choice)"
#[kani::proof]
#[kani::unwind(4)]
#[kani::stub(std::fmt::format, stub_format)]
fn c14_extension_other() {
    match kani::any::<u8>() % 3 {
        0 => extension_body(mk_subscribe_op(1, None), true),
        1 => extension_body(mk_unsubscribe_op(1, None), true),
        _ => extension_body(mk_internal_op(1, MqttPacket::Pingreq(PingreqPacket {})), false),
    }
}

// @gv props=C14 tier=quick required=yes fns=ProtocolState::service_keep_alive,ProtocolState::apply_ping_extension_on_operation_success
// @gv bounds="keep-alive 0 (no ping scheduled): any clock, any ping timeout; one service step and one acknowledged completion"
#[kani::proof]
#[kani::unwind(4)]
#[kani::stub(std::fmt::format, stub_format)]
fn c14_k0() {
    let mut st = keepalive_state(0, any_duration());
    st.next_ping_timepoint = None;
    st.ping_timeout_timepoint = None;
    let mut to_socket: Vec<u8> = Vec::with_capacity(16);
    let r = {
        let mut sctx = ServiceContext { to_socket: &mut to_socket, current_time: at(kani::any::<u32>() as u64) };
        st.service_keep_alive(&mut sctx)
    };
    assert!(r.is_ok());
    assert!(st.high_priority_operation_queue.is_empty() && st.next_ping_timepoint.is_none() && st.ping_timeout_timepoint.is_none());
    let mut op = mk_publish_op(1, None, QualityOfService::AtLeastOnce, false);
    op.ping_extension_base_timepoint = Some(at(kani::any::<u32>() as u64));
    st.apply_ping_extension_on_operation_success(&op);
    assert!(st.next_ping_timepoint.is_none());
    std::mem::forget(op); std::mem::forget(r); std::mem::forget(st);
}

// ------------------------------------------------------------------------------------------------
// C18 ack timeouts, retry counting
// ------------------------------------------------------------------------------------------------

// @gv props=C18,C11 tier=quick required=yes fns=ProtocolState::start_operation_ack_timeout,ProtocolState::get_operation_timeout_duration
// @gv bounds="publish / subscribe / unsubscribe (symbolic choice) with an ack timeout absent or any Duration up to Duration::MAX; clock symbolic whole seconds < 2^32"
// @gv timeout=900
#[kani::proof]
#[kani::unwind(4)]
#[kani::stub(std::fmt::format, stub_format)]
fn c18_deadline() {
    let mut st = mk_state(ProtocolStateType::Connected);
    let t: Option<Duration> = if kani::any() { Some(any_duration()) } else { None };
    let kind: u8 = kani::any();
    kani::assume(kind < 4);
    let op = match kind {
        0 => { let mut o = mk_publish_op(7, Some(5), QualityOfService::AtLeastOnce, false); if let Some(ClientOperationOptions::Publish(x)) = &mut o.options { x.options.ack_timeout = t; } o }
        1 => { let mut o = mk_subscribe_op(7, Some(5)); if let Some(ClientOperationOptions::Subscribe(x)) = &mut o.options { x.options.ack_timeout = t; } o }
        2 => { let mut o = mk_unsubscribe_op(7, Some(5)); if let Some(ClientOperationOptions::Unsubscribe(x)) = &mut o.options { x.options.ack_timeout = t; } o }
        _ => mk_internal_op(7, MqttPacket::Pingreq(PingreqPacket {})),
    };
    st.operations.insert(7, op);
    let now = at(kani::any::<u32>() as u64);
    st.start_operation_ack_timeout(7, now); // must not panic for any timeout the options builders accept
    let expect = if kind < 3 { match t { Some(d) => now.checked_add(d), None => None } } else { None };
    kani::cover!(t.is_some() && expect.is_none() && kind < 3, "timeout beyond the representable range");
    kani::cover!(expect.is_some(), "deadline recorded");
    // a record exists iff the operation carries a (representable) timeout, and it is (operation, now + T)
    assert!(st.operation_ack_timeouts.len() == if expect.is_some() { 1 } else { 0 });
    if let Some(e) = expect {
        let rec = st.operation_ack_timeouts.peek().unwrap().0;
        assert!(rec.id == 7 && rec.timeout == e);
    }
    std::mem::forget(st);
}

fn due_body(n_rec: usize) {
    let mut st = mk_state(ProtocolStateType::Connected);
    let t1 = zero_instant() + Duration::new(kani::any::<u32>() as u64, kani::any::<u32>() % 1_000_000_000);
    let t2 = zero_instant() + Duration::new(kani::any::<u32>() as u64, kani::any::<u32>() % 1_000_000_000);
    st.operation_ack_timeouts.push(Reverse(OperationTimeoutRecord { id: 11, timeout: t1 }));
    if n_rec >= 2 { st.operation_ack_timeouts.push(Reverse(OperationTimeoutRecord { id: 12, timeout: t2 })); }
    st.current_time = zero_instant() + Duration::new(kani::any::<u32>() as u64, kani::any::<u32>() % 1_000_000_000);
    let got = st.get_next_ack_timeout();
    let (eid, et) = if n_rec < 2 || t1 < t2 { (11, t1) } else if t2 < t1 { (12, t2) } else { (0, t1) };
    kani::cover!(et == st.current_time, "service exactly at the deadline");
    kani::cover!(n_rec < 2 || t2 < t1, "second record is the earliest");
    // fires at, never before, the deadline; the earliest record is the one returned
    assert!(got.is_some() == (et <= st.current_time));
    if let Some(id) = got { if eid != 0 { assert!(id == eid); } else { assert!(id == 11 || id == 12); } }
    std::mem::forget(st);
}

// @gv props=C18 tier=quick required=yes fns=ProtocolState::get_next_ack_timeout,OperationTimeoutRecord::cmp
// @gv bounds="one ack-timeout record; deadline and clock symbolic (seconds < 2^32 + nanoseconds)"
#[kani::proof]
#[kani::unwind(5)]
fn c18_due_one() { due_body(1) }

// @gv props=C18 tier=quick required=yes fns=ProtocolState::get_next_ack_timeout,OperationTimeoutRecord::cmp
// @gv bounds="two ack-timeout records pushed in fixed order with symbolic deadlines; clock symbolic"
#[kani::proof]
#[kani::unwind(5)]
fn c18_due_two() { due_body(2) }

// @gv props=C18 tier=quick required=yes fns=ProtocolState::update_interrupted_retries
// @gv bounds="three operations: a pending publish, a pending subscribe and a merely queued publish, each with a symbolic interruption count < 2^31; retry limit absent or symbolic"
// @gv timeout=900
#[kani::proof]
#[kani::unwind(6)]
#[kani::stub(std::fmt::format, stub_format)]
fn c18_retries_counting() {
    let mut cfg = mk_config();
    let limit: Option<u32> = if kani::any() { Some(kani::any()) } else { None };
    cfg.max_interrupted_retries = limit;
    let mut st = ProtocolState::new(cfg);
    st.state = ProtocolStateType::Connected;
    let (c1, c2, c3): (u32, u32, u32) = (kani::any(), kani::any(), kani::any());
    kani::assume(c1 < (1 << 31) && c2 < (1 << 31) && c3 < (1 << 31));
    let mut a = mk_publish_op(1, Some(10), QualityOfService::AtLeastOnce, false); a.interruption_count = c1;
    let mut b = mk_subscribe_op(2, Some(11)); b.interruption_count = c2;
    let mut c = mk_publish_op(3, None, QualityOfService::AtLeastOnce, false); c.interruption_count = c3;
    st.operations.insert(1, a); st.operations.insert(2, b); st.operations.insert(3, c);
    st.pending_publish_operations.insert(10, 1);
    st.pending_non_publish_operations.insert(11, 2);
    st.user_operation_queue.push_back(3);
    st.update_interrupted_retries();
    let inc = if limit.is_some() { 1 } else { 0 };
    // exactly the written-but-unacknowledged operations are counted, and only when a limit is configured
    assert!(st.operations.get(&1).unwrap().interruption_count == c1 + inc);
    assert!(st.operations.get(&2).unwrap().interruption_count == c2 + inc);
    assert!(st.operations.get(&3).unwrap().interruption_count == c3);
    std::mem::forget(st);
}

// ------------------------------------------------------------------------------------------------
// C15 offline-queue policy
// ------------------------------------------------------------------------------------------------

/// The table of the OfflineQueuePolicy documentation (client/config.rs), transcribed.
fn oracle_policy(policy: OfflineQueuePolicy, is_publish: bool, qos: u8, is_sub_or_unsub: bool) -> bool {
    match policy {
        OfflineQueuePolicy::PreserveAll => is_publish || is_sub_or_unsub,
        OfflineQueuePolicy::PreserveAcknowledged => (is_publish && qos > 0) || is_sub_or_unsub,
        OfflineQueuePolicy::PreserveQos1PlusPublishes => is_publish && qos > 0,
        _ => false,
    }
}

// @gv props=C15 tier=quick required=yes fns=does_packet_pass_offline_queue_policy,ProtocolState::operation_packet_passes_offline_queue_policy
// @gv bounds="the four policies x {publish QoS 0/1/2, subscribe, unsubscribe, pingreq, puback, disconnect} x the five engine states"
#[kani::proof]
#[kani::unwind(4)]
#[kani::stub(std::fmt::format, stub_format)]
fn c15_table() {
    let pol = any_policy();
    let q: u8 = kani::any();
    kani::assume(q < 3);
    let publish = MqttPacket::Publish(PublishPacket { qos: qos_of(q), ..Default::default() });
    let sub = MqttPacket::Subscribe(SubscribePacket { ..Default::default() });
    let unsub = MqttPacket::Unsubscribe(UnsubscribePacket { ..Default::default() });
    let ping = MqttPacket::Pingreq(PingreqPacket {});
    let ack = MqttPacket::Puback(PubackPacket { ..Default::default() });
    let disc = MqttPacket::Disconnect(DisconnectPacket { ..Default::default() });
    assert!(does_packet_pass_offline_queue_policy(&publish, &pol) == oracle_policy(pol, true, q, false));
    assert!(does_packet_pass_offline_queue_policy(&sub, &pol) == oracle_policy(pol, false, 0, true));
    assert!(does_packet_pass_offline_queue_policy(&unsub, &pol) == oracle_policy(pol, false, 0, true));
    assert!(!does_packet_pass_offline_queue_policy(&ping, &pol));
    assert!(!does_packet_pass_offline_queue_policy(&ack, &pol));
    assert!(!does_packet_pass_offline_queue_policy(&disc, &pol));
    // at submission: never failed for lack of a connection while connected; by the table otherwise
    let mut cfg = mk_config();
    cfg.offline_queue_policy = pol;
    let mut st = ProtocolState::new(cfg);
    st.state = any_state();
    let connected = st.state == ProtocolStateType::Connected;
    assert!(st.operation_packet_passes_offline_queue_policy(&publish) == (connected || oracle_policy(pol, true, q, false)));
    assert!(st.operation_packet_passes_offline_queue_policy(&sub) == (connected || oracle_policy(pol, false, 0, true)));
    assert!(st.operation_packet_passes_offline_queue_policy(&unsub) == (connected || oracle_policy(pol, false, 0, true)));
    std::mem::forget(publish); std::mem::forget(sub); std::mem::forget(unsub); std::mem::forget(disc);
    std::mem::forget(st);
}

fn partition_body(pol: OfflineQueuePolicy, q1: u8, q3: u8) {
    // Packets are stack values and QoS is concrete per call: CBMC loses the variant of a Box<MqttPacket> read back
    // through the operation table, and a symbolic retain/reject decision makes the two result queues' heap shapes
    // symbolic (both measured: out of memory). The decision table itself is decided for all inputs by c15_table.
    let p1 = MqttPacket::Publish(PublishPacket { qos: qos_of(q1), ..Default::default() });
    let p2 = MqttPacket::Subscribe(SubscribePacket { ..Default::default() });
    let p3 = MqttPacket::Publish(PublishPacket { qos: qos_of(q3), ..Default::default() });
    let p4 = MqttPacket::Unsubscribe(UnsubscribePacket { ..Default::default() });
    let items: [(u64, &MqttPacket); 4] = [(1, &p1), (2, &p2), (3, &p3), (4, &p4)];
    // (array::IntoIter moves the references through MaybeUninit storage, after which CBMC no longer knows what they point to)
    let (retained, rejected) = partition_operations_by_queue_policy(items.iter().map(|t| (t.0, t.1)), &pol);
    let want_ret: [bool; 4] = [oracle_policy(pol, true, q1, false), oracle_policy(pol, false, 0, true), oracle_policy(pol, true, q3, false), oracle_policy(pol, false, 0, true)];
    kani::cover!(retained.len() + rejected.len() == 4, "partition computed");
    // an order-preserving partition by the policy table
    assert!(retained.len() + rejected.len() == 4);
    let (mut ri, mut ji) = (0usize, 0usize);
    let mut i = 0;
    while i < 4 {
        let id = (i + 1) as u64;
        if want_ret[i] { assert!(dq(&retained, ri) == id); ri += 1; } else { assert!(dq(&rejected, ji) == id); ji += 1; }
        i += 1;
    }
    assert!(ri == retained.len() && ji == rejected.len());
    std::mem::forget(retained); std::mem::forget(rejected);
    std::mem::forget(p1); std::mem::forget(p2); std::mem::forget(p3); std::mem::forget(p4);
}

// @gv props=C15 tier=quick required=yes fns=ProtocolState::partition_operation_queue_by_queue_policy
// @gv bounds="queue [publish QoS symbolic, stale id, subscribe] under PreserveNothing: stale ids are skipped, everything else is selected for failure in order"
// @gv timeout=900
#[kani::proof]
#[kani::unwind(6)]
#[kani::stub(std::fmt::format, stub_format)]
fn c15_partition_skips_stale() {
    let mut st = mk_state(ProtocolStateType::Disconnected);
    st.operations.insert(1, mk_publish_op(1, None, any_qos(), false));
    st.operations.insert(2, mk_subscribe_op(2, None));
    let mut q: VecDeque<u64> = VecDeque::new();
    q.push_back(1); q.push_back(9); q.push_back(2);
    let (retained, rejected) = st.partition_operation_queue_by_queue_policy(&q, &OfflineQueuePolicy::PreserveNothing);
    assert!(retained.is_empty() && rejected.len() == 2 && dq(&rejected, 0) == 1 && dq(&rejected, 1) == 2);
    std::mem::forget(retained); std::mem::forget(rejected); std::mem::forget(q);
    std::mem::forget(st);
}

// ------------------------------------------------------------------------------------------------
// C07 connect / negotiated settings / state guards
// ------------------------------------------------------------------------------------------------

fn any_rejoin() -> RejoinSessionPolicy {
    match kani::any::<u8>() % 3 { 0 => RejoinSessionPolicy::PostSuccess, 1 => RejoinSessionPolicy::Always, _ => RejoinSessionPolicy::Never }
}

// @gv props=C07,C02 tier=quick required=yes fns=ConnectOptions::to_connect_packet,ProtocolState::create_connect
// @gv bounds="three rejoin policies x connected-before flag; every scalar connect option present/absent with symbolic value; configured client id of 2 symbolic bytes or absent; previously negotiated client id of 2 symbolic bytes or no previous settings"
// @gv timeout=900
#[kani::proof]
#[kani::unwind(5)]
#[kani::stub(std::fmt::format, stub_format)]
fn c07_connect_faithful() {
    let mut o = ConnectOptions::builder().build();
    let pol = any_rejoin();
    o.rejoin_session_policy = pol;
    o.keep_alive_interval_seconds = if kani::any() { Some(kani::any()) } else { None };
    o.session_expiry_interval_seconds = if kani::any() { Some(kani::any()) } else { None };
    o.request_response_information = if kani::any() { Some(kani::any()) } else { None };
    o.request_problem_information = if kani::any() { Some(kani::any()) } else { None };
    o.receive_maximum = if kani::any() { Some(kani::any()) } else { None };
    o.topic_alias_maximum = if kani::any() { Some(kani::any()) } else { None };
    o.maximum_packet_size_bytes = if kani::any() { Some(kani::any()) } else { None };
    o.will_delay_interval_seconds = if kani::any() { Some(kani::any()) } else { None };
    let cid: [u8; 2] = kani::any();
    kani::assume(cid[0] < 0x80 && cid[1] < 0x80);
    let has_cid: bool = kani::any();
    if has_cid { o.client_id = Some(unsafe { String::from_utf8_unchecked(cid.to_vec()) }); }
    let before: bool = kani::any();
    let expect = (o.keep_alive_interval_seconds, o.session_expiry_interval_seconds, o.request_response_information, o.request_problem_information,
                  o.receive_maximum, o.topic_alias_maximum, o.maximum_packet_size_bytes, o.will_delay_interval_seconds);
    let mut cfg = mk_config();
    cfg.connect_options = o;
    let mut st = ProtocolState::new(cfg);
    st.has_connected_successfully = before;
    let prev: [u8; 2] = kani::any();
    kani::assume(prev[0] < 0x80 && prev[1] < 0x80);
    let has_prev: bool = kani::any();
    if has_prev { st.current_settings = Some(NegotiatedSettings { client_id: unsafe { String::from_utf8_unchecked(prev.to_vec()) }, ..Default::default() }); }
    let packet = st.create_connect();
    let c = match &*packet { MqttPacket::Connect(c) => c, _ => { assert!(false); unreachable!() } };
    // clean start by policy and connection history
    let want_clean = match pol { RejoinSessionPolicy::PostSuccess => !before, RejoinSessionPolicy::Always => false, RejoinSessionPolicy::Never => true };
    assert!(c.clean_start == want_clean);
    // every configured value copied unchanged
    assert!(c.keep_alive_interval_seconds == expect.0.unwrap_or(0));
    assert!(c.session_expiry_interval_seconds == expect.1 && c.request_response_information == expect.2 && c.request_problem_information == expect.3);
    assert!(c.receive_maximum == expect.4 && c.topic_alias_maximum == expect.5 && c.maximum_packet_size_bytes == expect.6 && c.will_delay_interval_seconds == expect.7);
    assert!(c.username.is_none() && c.password.is_none() && c.will.is_none() && c.user_properties.is_none());
    assert!(c.authentication_method.is_none() && c.authentication_data.is_none());
    // client id: the configured one, else the one the server assigned on an earlier connection
    kani::cover!(!has_cid && has_prev, "server-assigned client id reused");
    match &c.client_id {
        Some(id) => { let b = id.as_bytes(); assert!(b.len() == 2); if has_cid { assert!(b[0] == cid[0] && b[1] == cid[1]); } else { assert!(has_prev && b[0] == prev[0] && b[1] == prev[1]); } }
        None => { assert!(!has_cid && !has_prev); }
    }
    std::mem::forget(packet);
    std::mem::forget(st);
}

// @gv props=C07,C16,C09,C14 tier=quick required=yes fns=build_negotiated_settings
// @gv bounds="all 2^11 present/absent combinations of the CONNACK properties with symbolic values; CONNECT keep-alive / session expiry present or absent; client id from CONNACK (1 byte) / CONNECT (1 byte) / previous settings (1 byte) / none"
// @gv timeout=900
#[kani::proof]
#[kani::unwind(4)]
#[kani::stub(std::fmt::format, stub_format)]
fn c07_settings() {
    let mut cfg = mk_config();
    let ka_c: Option<u16> = if kani::any() { Some(kani::any()) } else { None };
    let se_c: Option<u32> = if kani::any() { Some(kani::any()) } else { None };
    cfg.connect_options.keep_alive_interval_seconds = ka_c;
    cfg.connect_options.session_expiry_interval_seconds = se_c;
    let src: u8 = kani::any();
    kani::assume(src < 8);
    let (b1, b2, b3): (u8, u8, u8) = (kani::any(), kani::any(), kani::any());
    kani::assume(b1 < 0x80 && b2 < 0x80 && b3 < 0x80);
    if src & 2 != 0 { cfg.connect_options.client_id = Some(unsafe { String::from_utf8_unchecked(vec![b2]) }); }
    let existing = if src & 4 != 0 { Some(NegotiatedSettings { client_id: unsafe { String::from_utf8_unchecked(vec![b3]) }, ..Default::default() }) } else { None };
    let mq: Option<QualityOfService> = if kani::any() { Some(any_qos()) } else { None };
    let connack = ConnackPacket {
        session_present: kani::any(),
        session_expiry_interval: if kani::any() { Some(kani::any()) } else { None },
        receive_maximum: if kani::any() { Some(kani::any()) } else { None },
        maximum_qos: mq,
        retain_available: if kani::any() { Some(kani::any()) } else { None },
        maximum_packet_size: if kani::any() { Some(kani::any()) } else { None },
        assigned_client_identifier: if src & 1 != 0 { Some(unsafe { String::from_utf8_unchecked(vec![b1]) }) } else { None },
        topic_alias_maximum: if kani::any() { Some(kani::any()) } else { None },
        wildcard_subscriptions_available: if kani::any() { Some(kani::any()) } else { None },
        subscription_identifiers_available: if kani::any() { Some(kani::any()) } else { None },
        shared_subscriptions_available: if kani::any() { Some(kani::any()) } else { None },
        server_keep_alive: if kani::any() { Some(kani::any()) } else { None },
        ..Default::default()
    };
    let s = build_negotiated_settings(&cfg, &connack, &existing);
    // CONNACK value, else CONNECT value, else the specification default (MQTT5 3.2.2.3)
    assert!(s.maximum_qos == mq.unwrap_or(QualityOfService::ExactlyOnce));
    assert!(s.session_expiry_interval == connack.session_expiry_interval.unwrap_or(se_c.unwrap_or(0)));
    assert!(s.receive_maximum_from_server == connack.receive_maximum.unwrap_or(65535));
    assert!(s.maximum_packet_size_to_server == connack.maximum_packet_size.unwrap_or(268435455));
    assert!(s.topic_alias_maximum_to_server == connack.topic_alias_maximum.unwrap_or(0));
    assert!(s.server_keep_alive == connack.server_keep_alive.unwrap_or(ka_c.unwrap_or(0)));
    assert!(s.retain_available == connack.retain_available.unwrap_or(true));
    assert!(s.wildcard_subscriptions_available == connack.wildcard_subscriptions_available.unwrap_or(true));
    assert!(s.subscription_identifiers_available == connack.subscription_identifiers_available.unwrap_or(true));
    assert!(s.shared_subscriptions_available == connack.shared_subscriptions_available.unwrap_or(true));
    assert!(s.rejoined_session == connack.session_present);
    let id = s.client_id.as_bytes();
    if src & 1 != 0 { assert!(id.len() == 1 && id[0] == b1); }
    else if src & 2 != 0 { assert!(id.len() == 1 && id[0] == b2); }
    else if src & 4 != 0 { assert!(id.len() == 1 && id[0] == b3); }
    else { assert!(id.is_empty()); }
    std::mem::forget(s); std::mem::forget(connack); std::mem::forget(cfg); std::mem::forget(existing);
}

// @gv props=C07,C11 tier=quick required=yes fns=ProtocolState::handle_network_event_connection_opened,ProtocolState::create_operation,ProtocolState::enqueue_operation
// @gv bounds="connection opened in each of the five engine states; symbolic establishment deadline; a stale id already in the high-priority queue (the CONNECT must go in front of it)"
// @gv timeout=900
#[kani::proof]
#[kani::unwind(5)]
#[kani::stub(std::fmt::format, stub_format)]
fn c07_opened() {
    let mut st = mk_state(any_state());
    let s0 = st.state;
    st.high_priority_operation_queue.push_back(900);
    st.pending_write_completion = kani::any();
    let deadline = at(kani::any::<u32>() as u64);
    let mut events: VecDeque<PacketEvent> = VecDeque::new();
    let r = {
        let ctx = NetworkEventContext { event: NetworkEvent::ConnectionOpened(super::ConnectionOpenedContext { establishment_timeout: deadline }), current_time: zero_instant(), packet_events: &mut events };
        st.handle_network_event_connection_opened(&ctx)
    };
    kani::cover!(s0 == ProtocolStateType::Disconnected, "opened from Disconnected");
    assert!(r.is_ok() == (s0 == ProtocolStateType::Disconnected));
    if r.is_ok() {
        assert!(st.state == ProtocolStateType::PendingConnack);
        assert!(st.connack_timeout_timepoint == Some(deadline));
        assert!(!st.pending_write_completion && st.current_operation.is_none());
        // exactly one CONNECT, at the FRONT of the high-priority queue
        assert!(st.high_priority_operation_queue.len() == 2);
        let id = *st.high_priority_operation_queue.front().unwrap();
        assert!(matches!(&*st.operations.get(&id).unwrap().packet, MqttPacket::Connect(_)));
        assert!(st.operations.len() == 1);
    } else {
        assert!(st.state == ProtocolStateType::Halted);
        assert!(st.operations.len() == 0);
    }
    std::mem::forget(r); std::mem::forget(events); std::mem::forget(st);
}

// @gv props=C07,C11 tier=quick required=yes fns=ProtocolState::handle_connack
// @gv bounds="CONNACK (symbolic session flag) arriving in each engine state other than PendingConnack: protocol error, no state change, nothing surfaced"
// @gv timeout=900
#[kani::proof]
#[kani::unwind(5)]
#[kani::stub(std::fmt::format, stub_format)]
fn c07_connack_wrong_state() {
    let mut st = mk_state(any_state());
    kani::assume(st.state != ProtocolStateType::PendingConnack);
    let s0 = st.state;
    let mut events: VecDeque<PacketEvent> = VecDeque::new();
    let r = {
        let mut ctx = net_ctx(&mut events, zero_instant());
        st.handle_connack(Box::new(MqttPacket::Connack(ConnackPacket { session_present: kani::any(), ..Default::default() })), &mut ctx)
    };
    assert!(r.is_err());
    assert!(st.state == s0 && st.current_settings.is_none() && events.is_empty() && !st.has_connected_successfully);
    std::mem::forget(r); std::mem::forget(events); std::mem::forget(st);
}

// @gv props=C07,C11 tier=quick required=yes fns=ProtocolState::handle_connack
// @gv bounds="failing CONNACK (reason code symbolic among three failing codes) while PendingConnack: connection-establishment error, CONNACK surfaced once, engine not connected"
// @gv timeout=900
#[kani::proof]
#[kani::unwind(5)]
#[kani::stub(std::fmt::format, stub_format)]
fn c07_connack_failing() {
    let mut st = mk_state(ProtocolStateType::PendingConnack);
    st.connack_timeout_timepoint = Some(at(30));
    let rc = match kani::any::<u8>() % 3 { 0 => ConnectReasonCode::NotAuthorized, 1 => ConnectReasonCode::ServerBusy, _ => ConnectReasonCode::UnspecifiedError };
    let mut events: VecDeque<PacketEvent> = VecDeque::new();
    let r = {
        let mut ctx = net_ctx(&mut events, zero_instant());
        st.handle_connack(Box::new(MqttPacket::Connack(ConnackPacket { reason_code: rc, ..Default::default() })), &mut ctx)
    };
    assert!(r.is_err());
    assert!(st.state == ProtocolStateType::PendingConnack && st.current_settings.is_none() && !st.has_connected_successfully);
    assert!(events.len() == 1);
    assert!(matches!(events.front(), Some(PacketEvent::Connack(c)) if c.reason_code == rc));
    std::mem::forget(r); std::mem::forget(events); std::mem::forget(st);
}

// recording outbound alias resolver: counts resets and remembers the maximum it was reset with
static mut AR_RESETS: u32 = 0;
static mut AR_MAX: u16 = 0;
struct RecordingResolver {}
impl crate::alias::OutboundAliasResolver for RecordingResolver {
    fn reset_for_new_connection(&mut self, max_aliases: u16) { unsafe { AR_RESETS += 1; AR_MAX = max_aliases; } }
    fn resolve_and_apply_topic_alias(&mut self, _alias: &Option<u16>, _topic: &str) -> crate::alias::OutboundAliasResolution {
        crate::alias::OutboundAliasResolution { skip_topic: false, alias: None }
    }
}

// @gv props=C07,C17,C14 tier=quick required=yes fns=ProtocolState::handle_connack,build_negotiated_settings,ProtocolState::initialize_slow_start,ProtocolState::apply_session_present_to_connection,InboundAliasResolver::reset_for_new_connection
// @gv bounds="successful CONNACK while PendingConnack, nothing queued; symbolic: session-present flag, topic alias maximum (absent or any u16), server keep-alive (absent or any u16), receive maximum (absent or any non-zero u16), arrival time (seconds); one inbound alias binding left over from the previous connection; outbound resolver = recorder"
// @gv timeout=900 mem=8
#[kani::proof]
#[kani::unwind(6)]
#[kani::stub(std::fmt::format, stub_format)]
fn c07_connack_success() {
    unsafe { AR_RESETS = 0; AR_MAX = 0; }
    let mut st = mk_state(ProtocolStateType::PendingConnack);
    st.connack_timeout_timepoint = Some(at(30));
    st.has_connected_successfully = kani::any();
    st.outbound_alias_resolver = std::cell::RefCell::new(Box::new(RecordingResolver {}));
    // binding left over from the previous connection
    st.inbound_alias_resolver = crate::alias::InboundAliasResolver::new(5);
    { let mut t = "old".to_string(); let b = st.inbound_alias_resolver.resolve_topic_alias(&Some(2), &mut t); assert!(b.is_ok()); std::mem::forget(b); }
    st.ping_timeout_timepoint = if kani::any() { Some(at(3)) } else { None };
    let session_present: bool = kani::any();
    let tam: Option<u16> = if kani::any() { Some(kani::any()) } else { None };
    let ska: Option<u16> = if kani::any() { Some(kani::any()) } else { None };
    let rm: Option<u16> = if kani::any() { let v: u16 = kani::any(); kani::assume(v != 0); Some(v) } else { None };
    let secs: u32 = kani::any();
    let now = zero_instant() + Duration::from_secs(secs as u64);
    let mut events: VecDeque<PacketEvent> = VecDeque::new();
    let r = {
        let mut ctx = net_ctx(&mut events, now);
        st.handle_connack(Box::new(MqttPacket::Connack(ConnackPacket { session_present, topic_alias_maximum: tam, server_keep_alive: ska, receive_maximum: rm, ..Default::default() })), &mut ctx)
    };
    assert!(r.is_ok());
    assert!(st.state == ProtocolStateType::Connected && st.has_connected_successfully, "gv: a successful CONNACK connects the engine and is remembered for the rejoin policy");
    assert!(st.connack_timeout_timepoint.is_none(), "gv: the CONNACK timeout is disarmed by the CONNACK");
    assert!(unsafe { AR_RESETS } == 1 && unsafe { AR_MAX } == tam.unwrap_or(0), "gv: every new connection starts with an empty outbound alias table limited by the server's Topic Alias Maximum");
    { let mut t = String::new(); let b = st.inbound_alias_resolver.resolve_topic_alias(&Some(2), &mut t);
      assert!(b.is_err(), "gv: inbound alias bindings never survive into a new connection"); std::mem::forget(b); }
    let k = match &st.current_settings { Some(s) => s.server_keep_alive, None => { assert!(false, "gv: settings negotiated"); 0 } };
    let configured = st.config.connect_options.keep_alive_interval_seconds.unwrap_or(0);
    assert!(k == ska.unwrap_or(configured), "gv: the server's keep-alive overrides the client's");
    assert!(st.current_settings.as_ref().unwrap().receive_maximum_from_server == rm.unwrap_or(65535), "gv: receive maximum 65535 when the CONNACK has none");
    assert!(st.ping_timeout_timepoint.is_none(), "gv: no PINGREQ is outstanding on a new connection");
    if k > 0 { assert!(st.next_ping_timepoint == Some(now + Duration::from_secs(k as u64)), "gv: keep-alive is measured from the CONNACK"); }
    else { assert!(st.next_ping_timepoint.is_none(), "gv: keep-alive 0 disables pings"); }
    assert!(events.len() == 1 && matches!(events.front(), Some(PacketEvent::Connack(c)) if c.session_present == session_present), "gv: the CONNACK is surfaced exactly once");
    std::mem::forget(r); std::mem::forget(events); std::mem::forget(st);
}

// ------------------------------------------------------------------------------------------------
// C11 handler guards and absorbing states
// ------------------------------------------------------------------------------------------------

fn guard_body(kind: u8) {
    let mut st = mk_state(if kani::any() { ProtocolStateType::Disconnected } else { ProtocolStateType::PendingConnack });
    let pid: u16 = kani::any();
    let mut events: VecDeque<PacketEvent> = VecDeque::new();
    let r = {
        let mut ctx = net_ctx(&mut events, zero_instant());
        match kind {
            0 => st.handle_publish(Box::new(MqttPacket::Publish(PublishPacket { packet_id: pid, qos: any_qos(), ..Default::default() })), &mut ctx),
            1 => st.handle_puback(Box::new(MqttPacket::Puback(PubackPacket { packet_id: pid, ..Default::default() }))),
            2 => st.handle_pubrec(Box::new(MqttPacket::Pubrec(PubrecPacket { packet_id: pid, ..Default::default() }))),
            3 => st.handle_pubrel(Box::new(MqttPacket::Pubrel(PubrelPacket { packet_id: pid, ..Default::default() }))),
            4 => st.handle_pubcomp(Box::new(MqttPacket::Pubcomp(PubcompPacket { packet_id: pid, ..Default::default() }))),
            5 => st.handle_suback(Box::new(MqttPacket::Suback(SubackPacket { packet_id: pid, ..Default::default() }))),
            6 => st.handle_unsuback(Box::new(MqttPacket::Unsuback(UnsubackPacket { packet_id: pid, ..Default::default() }))),
            7 => st.handle_disconnect(Box::new(MqttPacket::Disconnect(DisconnectPacket { ..Default::default() })), &mut ctx),
            _ => st.handle_pingresp(),
        }
    };
    // a packet that is illegal before CONNACK is a clean protocol error: nothing surfaced, queued or recorded
    assert!(r.is_err());
    assert!(events.is_empty() && st.high_priority_operation_queue.is_empty() && st.operations.len() == 0);
    assert!(st.qos2_incomplete_incoming_publishes.is_empty());
    std::mem::forget(r); std::mem::forget(events); std::mem::forget(st);
}

// @gv props=C11 tier=quick required=yes fns=ProtocolState::handle_auth
// @gv bounds="AUTH packet in any of the five engine states: error, state unchanged, nothing surfaced (the dispatcher handle_packet itself is outside: it reaches every handler)"
#[kani::proof]
#[kani::unwind(4)]
#[kani::stub(std::fmt::format, stub_format)]
fn c11_auth_rejected() {
    let mut st = mk_state(any_state());
    let s0 = st.state;
    let mut events: VecDeque<PacketEvent> = VecDeque::new();
    let r = {
        let mut ctx = net_ctx(&mut events, zero_instant());
        st.handle_auth(Box::new(MqttPacket::Auth(AuthPacket { ..Default::default() })), &mut ctx)
    };
    assert!(r.is_err());
    assert!(st.state == s0 && events.is_empty() && st.operations.len() == 0);
    std::mem::forget(r); std::mem::forget(events); std::mem::forget(st);
}

// @gv props=C11 tier=quick required=yes fns=ProtocolState::service,ProtocolState::handle_network_event,ProtocolState::get_next_service_timepoint
// @gv bounds="Halted engine with one retained publish (symbolic QoS) in the resubmit queue: service, incoming data (2 symbolic bytes), write completion, connection opened; then connection closed"
// @gv timeout=900 mem=6
#[kani::proof]
#[kani::unwind(6)]
#[kani::stub(std::fmt::format, stub_format)]
fn c11_halted_absorbing() {
    let mut st = mk_state(ProtocolStateType::Halted);
    let q = if kani::any() { QualityOfService::AtLeastOnce } else { QualityOfService::ExactlyOnce };
    st.operations.insert(1, mk_publish_op(1, Some(5), q, true));
    st.allocated_packet_ids.insert(5, 1);
    st.resubmit_operation_queue.push_back(1);
    let now = at(kani::any::<u32>() as u64);
    let mut to_socket: Vec<u8> = Vec::with_capacity(16);
    let r1 = { let mut sctx = ServiceContext { to_socket: &mut to_socket, current_time: now }; st.service(&mut sctx) };
    assert!(r1.is_err() && to_socket.is_empty() && st.state == ProtocolStateType::Halted);
    assert!(st.get_next_service_timepoint(&now).is_none());
    let data: [u8; 2] = kani::any();
    let mut events: VecDeque<PacketEvent> = VecDeque::new();
    let which: u8 = kani::any();
    kani::assume(which < 3);
    let r2 = {
        let ev = match which { 0 => NetworkEvent::IncomingData(&data), 1 => NetworkEvent::WriteCompletion,
                               _ => NetworkEvent::ConnectionOpened(super::ConnectionOpenedContext { establishment_timeout: now }) };
        let mut ctx = NetworkEventContext { event: ev, current_time: now, packet_events: &mut events };
        st.handle_network_event(&mut ctx)
    };
    // after an error the engine accepts no more traffic and emits nothing; unresolved operations survive intact
    assert!(r2.is_err() && st.state == ProtocolStateType::Halted && events.is_empty());
    assert!(st.operations.len() == 1 && st.resubmit_operation_queue.len() == 1 && st.allocated_packet_ids.get(&5) == Some(&1));
    assert!(unsafe { CALLS } == 0);
    std::mem::forget(r1); std::mem::forget(r2); std::mem::forget(events); std::mem::forget(st);
}

// ------------------------------------------------------------------------------------------------
// C04 / C06 / C10 / C15 / C18: connection closed and session handling (retaining branches only)
// ------------------------------------------------------------------------------------------------

#[derive(Copy, Clone, PartialEq, Eq)]
enum CloseShape { PendingAck, CurrentDup, CurrentPubrel, HighPubrel }

fn close_body(shape: CloseShape, limit: Option<u32>, count0: u32) {
    let mut cfg = mk_config();
    cfg.offline_queue_policy = any_policy();
    cfg.max_interrupted_retries = limit;
    let mut st = ProtocolState::new(cfg);
    st.state = match kani::any::<u8>() % 3 { 0 => ProtocolStateType::Connected, 1 => ProtocolStateType::PendingDisconnect, _ => ProtocolStateType::Halted };
    let pid: u16 = kani::any();
    kani::assume(pid != 0);
    let qos2 = shape == CloseShape::CurrentPubrel || shape == CloseShape::HighPubrel || kani::any();
    let qos = if qos2 { QualityOfService::ExactlyOnce } else { QualityOfService::AtLeastOnce };
    let dup0 = shape == CloseShape::CurrentDup || kani::any();
    let mut op = mk_publish_op(7, Some(pid), qos, dup0);
    op.interruption_count = count0;
    let has_pubrel = shape == CloseShape::CurrentPubrel || shape == CloseShape::HighPubrel;
    if has_pubrel { op.qos2_pubrel = Some(Box::new(MqttPacket::Pubrel(PubrelPacket { packet_id: pid, ..Default::default() }))); }
    st.operations.insert(7, op);
    st.allocated_packet_ids.insert(pid, 7);
    let in_pending = shape != CloseShape::CurrentDup;
    if in_pending { st.pending_publish_operations.insert(pid, 7); }
    match shape {
        CloseShape::CurrentDup | CloseShape::CurrentPubrel => { st.current_operation = Some(7); }
        CloseShape::HighPubrel => { st.high_priority_operation_queue.push_back(7); }
        CloseShape::PendingAck => {}
    }
    st.next_ping_timepoint = opt_time();
    st.ping_timeout_timepoint = opt_time();
    st.connack_timeout_timepoint = opt_time();
    st.operation_ack_timeouts.push(Reverse(OperationTimeoutRecord { id: 7, timeout: at(5) }));
    let mut events: VecDeque<PacketEvent> = VecDeque::new();
    let r = {
        let mut ctx = NetworkEventContext { event: NetworkEvent::ConnectionClosed, current_time: zero_instant(), packet_events: &mut events };
        st.handle_network_event_connection_closed(&mut ctx)
    };
    assert!(r.is_ok());
    assert!(st.state == ProtocolStateType::Disconnected);
    // the in-flight publish is retained whatever the offline policy (the mandated exception), exactly once, for retransmission
    assert!(st.resubmit_operation_queue.len() == 1 && *st.resubmit_operation_queue.front().unwrap() == 7);
    assert!(st.user_operation_queue.is_empty() && st.high_priority_operation_queue.is_empty());
    assert!(st.current_operation.is_none() && st.pending_publish_operations.is_empty() && st.pending_non_publish_operations.is_empty());
    assert!(st.operations.len() == 1);
    let o = st.operations.get(&7).unwrap();
    let p = match &*o.packet { MqttPacket::Publish(p) => p, _ => { assert!(false); unreachable!() } };
    // DUP=1 on the retransmission, same identifier, reservation kept, PUBREL slot kept
    assert!(p.duplicate);
    assert!(p.packet_id == pid && o.packet_id == Some(pid));
    assert!(st.allocated_packet_ids.len() == 1 && st.allocated_packet_ids.get(&pid) == Some(&7));
    assert!(o.qos2_pubrel.is_some() == has_pubrel);
    if let Some(pr) = &o.qos2_pubrel { match &**pr { MqttPacket::Pubrel(x) => assert!(x.packet_id == pid), _ => assert!(false) } }
    assert!(qos_num(p.qos) == if qos2 { 2 } else { 1 });
    // interruption counting: only written-but-unacknowledged operations, only when a limit is configured
    let counted = limit.is_some() && in_pending;
    assert!(o.interruption_count == count0 + if counted { 1 } else { 0 });
    // not completed; all connection-scoped timers cleared
    assert!(unsafe { CALLS } == 0);
    assert!(st.next_ping_timepoint.is_none() && st.ping_timeout_timepoint.is_none() && st.connack_timeout_timepoint.is_none() && st.operation_ack_timeouts.is_empty());
    std::mem::forget(r); std::mem::forget(events); std::mem::forget(st);
}

fn session_present_body() {
    // CONNACK with session present: the retransmission queue is kept as it is; operations in the user queue start over
    let mut st = mk_state(ProtocolStateType::Connected);
    let (p1, p2): (u16, u16) = (kani::any(), kani::any());
    kani::assume(p1 != 0 && p2 != 0 && p1 != p2);
    let qos2: bool = kani::any();
    let mut a = mk_publish_op(3, Some(p1), if qos2 { QualityOfService::ExactlyOnce } else { QualityOfService::AtLeastOnce }, true);
    let has_pubrel = qos2 && kani::any::<bool>();
    if has_pubrel { a.qos2_pubrel = Some(Box::new(MqttPacket::Pubrel(PubrelPacket { packet_id: p1, ..Default::default() }))); }
    let b = mk_subscribe_op(5, Some(p2)); // a subscribe that had been written, then re-queued at close: starts over
    st.operations.insert(3, a);
    st.operations.insert(5, b);
    st.allocated_packet_ids.insert(p1, 3);
    st.allocated_packet_ids.insert(p2, 5);
    st.resubmit_operation_queue.push_back(3);
    st.user_operation_queue.push_back(5);
    st.qos2_incomplete_incoming_publishes.insert(9);
    let r = st.apply_session_present_to_connection(true);
    assert!(r.is_ok());
    assert!(st.resubmit_operation_queue.len() == 1 && *st.resubmit_operation_queue.front().unwrap() == 3);
    assert!(st.user_operation_queue.len() == 1 && *st.user_operation_queue.front().unwrap() == 5);
    let o = st.operations.get(&3).unwrap();
    let p = match &*o.packet { MqttPacket::Publish(p) => p, _ => { assert!(false); unreachable!() } };
    assert!(p.duplicate && p.packet_id == p1 && o.packet_id == Some(p1) && o.qos2_pubrel.is_some() == has_pubrel);
    assert!(st.allocated_packet_ids.get(&p1) == Some(&3));
    // the re-queued subscribe gives its identifier back
    let o5 = st.operations.get(&5).unwrap();
    assert!(o5.packet_id.is_none() && !st.allocated_packet_ids.contains_key(&p2));
    match &*o5.packet { MqttPacket::Subscribe(x) => assert!(x.packet_id == 0), _ => assert!(false) }
    assert!(st.allocated_packet_ids.len() == 1);
    assert!(st.qos2_incomplete_incoming_publishes.contains(&9));
    assert!(unsafe { CALLS } == 0);
    std::mem::forget(r); std::mem::forget(st);
}

fn session_absent_body(policy: OfflineQueuePolicy) {
    // CONNACK without session, policy retains the interrupted publish: it restarts as a fresh publish
    let mut cfg = mk_config();
    cfg.offline_queue_policy = policy;
    let mut st = ProtocolState::new(cfg);
    st.state = ProtocolStateType::Connected;
    let p1: u16 = kani::any();
    kani::assume(p1 != 0);
    let qos2: bool = kani::any();
    let mut a = mk_publish_op(3, Some(p1), if qos2 { QualityOfService::ExactlyOnce } else { QualityOfService::AtLeastOnce }, true);
    let has_pubrel = qos2 && kani::any::<bool>();
    if has_pubrel { a.qos2_pubrel = Some(Box::new(MqttPacket::Pubrel(PubrelPacket { packet_id: p1, ..Default::default() }))); }
    st.operations.insert(3, a);
    st.allocated_packet_ids.insert(p1, 3);
    st.resubmit_operation_queue.push_back(3);
    st.qos2_incomplete_incoming_publishes.insert(9);
    let r = st.apply_session_present_to_connection(false);
    assert!(r.is_ok());
    assert!(st.resubmit_operation_queue.is_empty());
    assert!(st.user_operation_queue.len() == 1 && *st.user_operation_queue.front().unwrap() == 3);
    let o = st.operations.get(&3).unwrap();
    let p = match &*o.packet { MqttPacket::Publish(p) => p, _ => { assert!(false); unreachable!() } };
    // fresh publish: DUP=0, no identifier, PUBREL forgotten, nothing reserved, inbound QoS2 state forgotten
    assert!(!p.duplicate && p.packet_id == 0 && o.packet_id.is_none() && o.qos2_pubrel.is_none());
    assert!(st.allocated_packet_ids.is_empty() && st.qos2_incomplete_incoming_publishes.is_empty());
    assert!(unsafe { CALLS } == 0);
    std::mem::forget(r); std::mem::forget(st);
}

fn pubrec_body() {
    let mut st = mk_state(if kani::any() { ProtocolStateType::Connected } else { ProtocolStateType::PendingDisconnect });
    let pid: u16 = kani::any();
    kani::assume(pid != 0);
    st.operations.insert(7, mk_publish_op(7, Some(pid), QualityOfService::ExactlyOnce, kani::any()));
    st.allocated_packet_ids.insert(pid, 7);
    st.pending_publish_operations.insert(pid, 7);
    st.high_priority_operation_queue.push_back(900);
    let r = st.handle_pubrec(Box::new(MqttPacket::Pubrec(PubrecPacket { packet_id: pid, reason_code: PubrecReasonCode::Success, ..Default::default() })));
    assert!(r.is_ok());
    // PUBREL slot set with the same id, operation queued once behind earlier acks, still pending
    let o = st.operations.get(&7).unwrap();
    match &o.qos2_pubrel { Some(pr) => match &**pr { MqttPacket::Pubrel(x) => assert!(x.packet_id == pid), _ => assert!(false) }, None => assert!(false) }
    assert!(st.high_priority_operation_queue.len() == 2 && *st.high_priority_operation_queue.back().unwrap() == 7);
    assert!(st.pending_publish_operations.get(&pid) == Some(&7) && st.allocated_packet_ids.get(&pid) == Some(&7));
    assert!(unsafe { CALLS } == 0);
    std::mem::forget(r); std::mem::forget(st);
}

// ------------------------------------------------------------------------------------------------
// Completion recorders. `complete_operation_as_success/failure` cannot be executed symbolically here (their drop glue
// and boxed-callback call exhaust memory, DESIGN.md section 3). In the harnesses below they are REPLACED by recorders, so
// that what is decided is the SELECTION: which operation a handler completes, with which acknowledgement or error, and how
// often. What the two functions do internally (remove the operation, release its id, take() and call its handler) is
// outside these harnesses.
// ------------------------------------------------------------------------------------------------

static mut DONE_N: usize = 0;
static mut DONE_ID: [u64; 4] = [0; 4];
static mut DONE_KIND: [u8; 4] = [0; 4];
static mut DONE_PID: [u16; 4] = [0; 4];
static mut DONE_CODES: [usize; 4] = [0; 4];

const K_OK_NONE: u8 = 10; const K_OK_PUBACK: u8 = 11; const K_OK_PUBREC: u8 = 12; const K_OK_PUBCOMP: u8 = 13; const K_OK_SUBACK: u8 = 14; const K_OK_UNSUBACK: u8 = 15; const K_OK_QOS0: u8 = 16;
const E_OFFLINE: u8 = 1; const E_ACK_TIMEOUT: u8 = 2; const E_CONN_CLOSED: u8 = 3; const E_RETRIES: u8 = 4; const E_CLIENT_CLOSED: u8 = 5; const E_VALIDATION: u8 = 6; const E_OTHER: u8 = 9;

fn done_reset() { unsafe { DONE_N = 0; } }
fn done_push(id: u64, kind: u8, pid: u16, codes: usize) {
    unsafe { if DONE_N < 4 { DONE_ID[DONE_N] = id; DONE_KIND[DONE_N] = kind; DONE_PID[DONE_N] = pid; DONE_CODES[DONE_N] = codes; } DONE_N += 1; }
}
fn done_n() -> usize { unsafe { DONE_N } }
fn done(i: usize) -> (u64, u8, u16, usize) { unsafe { (DONE_ID[i], DONE_KIND[i], DONE_PID[i], DONE_CODES[i]) } }

fn stub_complete_failure(_this: &mut ProtocolState, id: u64, error: GneissError) -> GneissResult<()> {
    let kind = match &error {
        GneissError::OfflineQueuePolicyFailed(_) => E_OFFLINE, GneissError::AckTimeout(_) => E_ACK_TIMEOUT, GneissError::ConnectionClosed(_) => E_CONN_CLOSED,
        GneissError::MaxInterruptedRetriesExceeded(_) => E_RETRIES, GneissError::ClientClosed(_) => E_CLIENT_CLOSED, GneissError::PacketValidationFailure(_) => E_VALIDATION,
        _ => E_OTHER,
    };
    done_push(id, kind, 0, 0);
    std::mem::forget(error);
    Ok(())
}

fn stub_complete_success(_this: &mut ProtocolState, id: u64, completion_result: Option<OperationResponse>) -> GneissResult<()> {
    match &completion_result {
        None => done_push(id, K_OK_NONE, 0, 0),
        Some(OperationResponse::Publish(PublishResponse::Qos0)) => done_push(id, K_OK_QOS0, 0, 0),
        Some(OperationResponse::Publish(PublishResponse::Qos1(p))) => done_push(id, K_OK_PUBACK, p.packet_id, 0),
        Some(OperationResponse::Publish(PublishResponse::Qos2(Qos2Response::Pubrec(p)))) => done_push(id, K_OK_PUBREC, p.packet_id, 0),
        Some(OperationResponse::Publish(PublishResponse::Qos2(Qos2Response::Pubcomp(p)))) => done_push(id, K_OK_PUBCOMP, p.packet_id, 0),
        Some(OperationResponse::Subscribe(p)) => done_push(id, K_OK_SUBACK, p.packet_id, p.reason_codes.len()),
        Some(OperationResponse::Unsubscribe(p)) => done_push(id, K_OK_UNSUBACK, p.packet_id, p.reason_codes.len()),
    }
    std::mem::forget(completion_result);
    Ok(())
}

/// pending table with two operations: a publish (QoS q) bound to p1 and a subscribe/unsubscribe bound to p2
fn two_pending_state(q: QualityOfService, with_pubrel: bool, sub: bool, n_entries: usize, v311: bool) -> (ProtocolState, u16, u16) {
    let mut cfg = mk_config();
    if v311 { cfg.protocol_mode = ProtocolMode::Mqtt311; }
    let mut st = ProtocolState::new(cfg);
    st.state = if kani::any() { ProtocolStateType::Connected } else { ProtocolStateType::PendingDisconnect };
    let (p1, p2): (u16, u16) = (kani::any(), kani::any());
    kani::assume(p1 != 0 && p2 != 0 && p1 != p2);
    let mut a = mk_publish_op(3, Some(p1), q, kani::any());
    if with_pubrel { a.qos2_pubrel = Some(Box::new(MqttPacket::Pubrel(PubrelPacket { packet_id: p1, ..Default::default() }))); }
    st.operations.insert(3, a);
    st.allocated_packet_ids.insert(p1, 3);
    st.pending_publish_operations.insert(p1, 3);
    let mut b = if sub { mk_subscribe_op(5, Some(p2)) } else { mk_unsubscribe_op(5, Some(p2)) };
    match &mut *b.packet {
        MqttPacket::Subscribe(x) => { let mut i = 0; while i < n_entries { x.subscriptions.push(Subscription { topic_filter: "a".to_string(), ..Default::default() }); i += 1; } }
        MqttPacket::Unsubscribe(x) => { let mut i = 0; while i < n_entries { x.topic_filters.push("a".to_string()); i += 1; } }
        _ => {}
    }
    st.operations.insert(5, b);
    st.allocated_packet_ids.insert(p2, 5);
    st.pending_non_publish_operations.insert(p2, 5);
    (st, p1, p2)
}

fn untouched(st: &ProtocolState, p1: u16, p2: u16) -> bool {
    st.operations.len() == 2 && st.pending_publish_operations.get(&p1) == Some(&3) && st.pending_non_publish_operations.get(&p2) == Some(&5)
        && st.allocated_packet_ids.len() == 2
}

/// which: 0 PUBACK, 1 PUBREC (success code), 2 PUBREC (failing code), 3 PUBCOMP, 4 SUBACK, 5 UNSUBACK
fn ack_select_body(which: u8, q: u8, with_pubrel: bool, n_entries: usize, n_codes: usize, v311: bool) {
    done_reset();
    let (mut st, p1, p2) = two_pending_state(qos_of(q), with_pubrel, which != 5, n_entries, v311);
    let ack: u16 = kani::any();
    let r = match which {
        0 => st.handle_puback(Box::new(MqttPacket::Puback(PubackPacket { packet_id: ack, ..Default::default() }))),
        1 => st.handle_pubrec(Box::new(MqttPacket::Pubrec(PubrecPacket { packet_id: ack, reason_code: PubrecReasonCode::Success, ..Default::default() }))),
        2 => st.handle_pubrec(Box::new(MqttPacket::Pubrec(PubrecPacket { packet_id: ack, reason_code: PubrecReasonCode::NotAuthorized, ..Default::default() }))),
        3 => st.handle_pubcomp(Box::new(MqttPacket::Pubcomp(PubcompPacket { packet_id: ack, ..Default::default() }))),
        4 => { let mut sa = SubackPacket { packet_id: ack, ..Default::default() }; let mut i = 0; while i < n_codes { sa.reason_codes.push(crate::mqtt::SubackReasonCode::GrantedQos1); i += 1; }
               st.handle_suback(Box::new(MqttPacket::Suback(sa))) }
        _ => { let mut ua = UnsubackPacket { packet_id: ack, ..Default::default() }; let mut i = 0; while i < n_codes { ua.reason_codes.push(crate::mqtt::UnsubackReasonCode::Success); i += 1; }
               st.handle_unsuback(Box::new(MqttPacket::Unsuback(ua))) }
    };
    // specification of the selection (C01): an acknowledgement completes exactly the pending operation of ITS type that was sent
    // with ITS packet id (QoS1 <- PUBACK, QoS2 <- failing PUBREC or PUBCOMP after PUBREL, subscribe <- SUBACK with one code per
    // entry, unsubscribe <- UNSUBACK); anything else is a protocol error that completes nothing
    let hit_pub = ack == p1;
    let hit_sub = ack == p2;
    let expect: Option<(u64, u8)> = match which {
        0 => if hit_pub && q == 1 { Some((3, K_OK_PUBACK)) } else { None },
        1 => None,
        2 => if hit_pub && q == 2 { Some((3, K_OK_PUBREC)) } else { None },
        3 => if hit_pub && q == 2 && with_pubrel { Some((3, K_OK_PUBCOMP)) } else { None },
        4 => if hit_sub && n_codes == n_entries { Some((5, K_OK_SUBACK)) } else { None },
        _ => if hit_sub && (v311 || n_codes == n_entries) { Some((5, K_OK_UNSUBACK)) } else { None },
    };
    let can_match = match which { 0 => q == 1, 1 => false, 2 => q == 2, 3 => q == 2 && with_pubrel, 4 => n_codes == n_entries, _ => v311 || n_codes == n_entries };
    kani::cover!(expect.is_some() || !can_match, "the matching operation is completed");
    kani::cover!(expect.is_none(), "no operation is completed");
    match expect {
        Some((id, kind)) => {
            assert!(r.is_ok(), "gv: a matching acknowledgement must be accepted");
            assert!(done_n() == 1, "gv: exactly one completion");
            let d = done(0);
            assert!(d.0 == id && d.1 == kind && d.2 == ack, "gv: the operation is completed with its own acknowledgement");
            if which == 5 { assert!(d.3 == n_entries, "gv: one reason code per requested entry"); }
            if which == 4 { assert!(d.3 == n_entries); }
        }
        None => {
            assert!(done_n() == 0, "gv: a foreign, mistyped or unknown acknowledgement must not complete any operation");
            if which == 1 && hit_pub && q == 2 {
                // successful PUBREC: handshake continues (checked in c04_pubrec_*); not an error
                assert!(r.is_ok());
            } else {
                assert!(r.is_err(), "gv: a foreign, mistyped or unknown acknowledgement is a protocol error");
                assert!(untouched(&st, p1, p2));
            }
        }
    }
    std::mem::forget(r); std::mem::forget(st);
}

/// connection closed with a CURRENT (half-encoded) operation; completion recorded instead of executed
/// kind: 0 fresh publish (QoS symbolic via q), 1 retransmitted publish (DUP=1), 2 QoS2 with PUBREL slot (PUBREC seen on THIS connection: also pending),
/// 3 QoS2 DUP=1 with PUBREL slot taken from the retransmission queue of a resumed connection (NOT in the pending table), 4 subscribe, 5 internal PUBACK
fn close_current_body(kind: u8, policy: OfflineQueuePolicy, q: u8) {
    done_reset();
    let mut cfg = mk_config();
    cfg.offline_queue_policy = policy;
    let mut st = ProtocolState::new(cfg);
    st.state = ProtocolStateType::Connected;
    let pid: u16 = kani::any();
    kani::assume(pid != 0);
    let op = match kind {
        0 => mk_publish_op(7, if q > 0 { Some(pid) } else { None }, qos_of(q), false),
        1 => mk_publish_op(7, Some(pid), qos_of(q), true),
        2 => { let mut o = mk_publish_op(7, Some(pid), QualityOfService::ExactlyOnce, kani::any()); o.qos2_pubrel = Some(Box::new(MqttPacket::Pubrel(PubrelPacket { packet_id: pid, ..Default::default() }))); o }
        3 => { let mut o = mk_publish_op(7, Some(pid), QualityOfService::ExactlyOnce, true); o.qos2_pubrel = Some(Box::new(MqttPacket::Pubrel(PubrelPacket { packet_id: pid, ..Default::default() }))); o }
        4 => mk_subscribe_op(7, Some(pid)),
        _ => mk_internal_op(7, MqttPacket::Puback(PubackPacket { packet_id: pid, ..Default::default() })),
    };
    st.operations.insert(7, op);
    if kind != 5 && !(kind == 0 && q == 0) { st.allocated_packet_ids.insert(pid, 7); }
    if kind == 2 { st.pending_publish_operations.insert(pid, 7); }
    st.current_operation = Some(7);
    let mut events: VecDeque<PacketEvent> = VecDeque::new();
    let r = {
        let mut ctx = NetworkEventContext { event: NetworkEvent::ConnectionClosed, current_time: zero_instant(), packet_events: &mut events };
        st.handle_network_event_connection_closed(&mut ctx)
    };
    assert!(r.is_ok());
    assert!(st.state == ProtocolStateType::Disconnected && st.current_operation.is_none());
    let passes = match kind { 0 => oracle_policy(policy, true, q, false), 4 => oracle_policy(policy, false, 0, true), _ => false };
    let in_resubmit = st.resubmit_operation_queue.len() == 1 && *st.resubmit_operation_queue.front().unwrap() == 7;
    let in_user = st.user_operation_queue.len() == 1 && *st.user_operation_queue.front().unwrap() == 7;
    match kind {
        1 | 2 | 3 => {
            // in-flight QoS1/2 exchange: retained for retransmission whatever the policy, exactly once, never failed
            assert!(done_n() == 0, "gv: an in-flight QoS1/2 publish must not be failed at disconnection");
            assert!(in_resubmit && st.user_operation_queue.is_empty() && st.high_priority_operation_queue.is_empty(), "gv: an in-flight QoS1/2 publish must wait in the retransmission queue");
            assert!(publish_of(&st, 7).duplicate && publish_of(&st, 7).packet_id == pid);
            assert!(st.operations.get(&7).unwrap().qos2_pubrel.is_some() == (kind >= 2));
        }
        0 | 4 => {
            // never sent completely: kept iff the policy preserves its kind (front of the user queue), else failed with the offline-policy error
            if passes {
                assert!(done_n() == 0 && in_user && st.resubmit_operation_queue.is_empty(), "gv: an operation the policy preserves must be kept");
            } else {
                assert!(done_n() == 1 && done(0).0 == 7 && done(0).1 == E_OFFLINE, "gv: an operation the policy rejects must be failed with the offline-policy error");
                assert!(st.user_operation_queue.is_empty() && st.resubmit_operation_queue.is_empty());
            }
        }
        _ => {
            // internal packets (acks, pings) die with the connection
            assert!(done_n() == 1 && done(0).0 == 7 && done(0).1 == E_CONN_CLOSED);
            assert!(st.user_operation_queue.is_empty() && st.resubmit_operation_queue.is_empty());
        }
    }
    assert!(st.high_priority_operation_queue.is_empty());
    std::mem::forget(r); std::mem::forget(events); std::mem::forget(st);
}

/// the decision the connection-closed handler takes for the CURRENT (half-encoded) operation, in isolation:
/// real `apply_connection_closed_to_current_operation`, completion recorded. Same kinds as close_current_body.
fn current_op_step_body(kind: u8, policy: OfflineQueuePolicy, q: u8) {
    done_reset();
    let mut cfg = mk_config();
    cfg.offline_queue_policy = policy;
    let mut st = ProtocolState::new(cfg);
    st.state = ProtocolStateType::Disconnected;
    let pid: u16 = kani::any();
    kani::assume(pid != 0);
    let op = match kind {
        0 => mk_publish_op(7, if q > 0 { Some(pid) } else { None }, qos_of(q), false),
        1 => mk_publish_op(7, Some(pid), qos_of(q), true),
        2 => { let mut o = mk_publish_op(7, Some(pid), QualityOfService::ExactlyOnce, false); o.qos2_pubrel = Some(Box::new(MqttPacket::Pubrel(PubrelPacket { packet_id: pid, ..Default::default() }))); o }
        3 => { let mut o = mk_publish_op(7, Some(pid), QualityOfService::ExactlyOnce, true); o.qos2_pubrel = Some(Box::new(MqttPacket::Pubrel(PubrelPacket { packet_id: pid, ..Default::default() }))); o }
        4 => mk_subscribe_op(7, Some(pid)),
        _ => mk_internal_op(7, MqttPacket::Puback(PubackPacket { packet_id: pid, ..Default::default() })),
    };
    st.operations.insert(7, op);
    st.current_operation = Some(7);
    // something already waits in each queue: the interrupted operation must go IN FRONT of it
    st.user_operation_queue.push_back(900);
    st.resubmit_operation_queue.push_back(901);
    let r = st.apply_connection_closed_to_current_operation();
    assert!(r.is_ok());
    assert!(st.current_operation.is_none());
    let passes = match kind { 0 => oracle_policy(policy, true, q, false), 4 => oracle_policy(policy, false, 0, true), _ => false };
    let front_user = *st.user_operation_queue.front().unwrap() == 7 && st.user_operation_queue.len() == 2;
    let front_resubmit = *st.resubmit_operation_queue.front().unwrap() == 7 && st.resubmit_operation_queue.len() == 2;
    let front_high = st.high_priority_operation_queue.len() == 1 && *st.high_priority_operation_queue.front().unwrap() == 7;
    match kind {
        1 | 3 => {
            // a retransmission (DUP=1) -- with or without a PUBREL slot -- stays a retransmission: front of the retransmission queue, whatever the policy
            assert!(done_n() == 0, "gv: an interrupted retransmission must not be failed");
            assert!(front_resubmit && st.user_operation_queue.len() == 1 && st.high_priority_operation_queue.is_empty(), "gv: an interrupted retransmission goes back to the front of the retransmission queue");
        }
        2 => {
            // PUBREL of an exchange whose PUBREC arrived on this connection: kept (re-queued through the in-flight table by the caller), never failed
            assert!(done_n() == 0 && front_high && st.user_operation_queue.len() == 1 && st.resubmit_operation_queue.len() == 1, "gv: an interrupted PUBREL must be kept");
        }
        0 | 4 => {
            if passes { assert!(done_n() == 0 && front_user && st.resubmit_operation_queue.len() == 1, "gv: an interrupted operation the policy preserves goes back to the front of the user queue"); }
            else { assert!(done_n() == 1 && done(0).0 == 7 && done(0).1 == E_OFFLINE && st.user_operation_queue.len() == 1 && st.resubmit_operation_queue.len() == 1, "gv: an interrupted operation the policy rejects is failed with the offline-policy error"); }
        }
        _ => { assert!(done_n() == 1 && done(0).0 == 7 && done(0).1 == E_CONN_CLOSED && st.user_operation_queue.len() == 1 && st.resubmit_operation_queue.len() == 1); }
    }
    std::mem::forget(r); std::mem::forget(st);
}

/// connection closed with one operation in a queue / table (not current); completion recorded instead of executed
/// where: 0 user queue, 1 written QoS0 awaiting write completion, 2 pending subscribe/unsubscribe, 3 high-priority internal (PUBACK)
fn close_queued_body(where_: u8, policy: OfflineQueuePolicy, kind_sub: bool, q: u8, limit: Option<u32>, count0: u32) {
    done_reset();
    let mut cfg = mk_config();
    cfg.offline_queue_policy = policy;
    cfg.max_interrupted_retries = limit;
    let mut st = ProtocolState::new(cfg);
    st.state = ProtocolStateType::Connected;
    let pid: u16 = kani::any();
    kani::assume(pid != 0);
    let mut op = match where_ {
        0 => if kind_sub { mk_subscribe_op(7, None) } else { mk_publish_op(7, None, qos_of(q), false) },
        1 => mk_publish_op(7, None, QualityOfService::AtMostOnce, false),
        2 => if kind_sub { mk_subscribe_op(7, Some(pid)) } else { mk_unsubscribe_op(7, Some(pid)) },
        _ => mk_internal_op(7, MqttPacket::Puback(PubackPacket { packet_id: pid, ..Default::default() })),
    };
    op.interruption_count = count0;
    st.operations.insert(7, op);
    match where_ {
        0 => st.user_operation_queue.push_back(7),
        1 => { st.pending_write_completion_operations.push_back(7); st.pending_write_completion = true; }
        2 => { st.pending_non_publish_operations.insert(pid, 7); st.allocated_packet_ids.insert(pid, 7); }
        _ => st.high_priority_operation_queue.push_back(7),
    }
    let mut events: VecDeque<PacketEvent> = VecDeque::new();
    let r = {
        let mut ctx = NetworkEventContext { event: NetworkEvent::ConnectionClosed, current_time: zero_instant(), packet_events: &mut events };
        st.handle_network_event_connection_closed(&mut ctx)
    };
    assert!(r.is_ok());
    let in_user = st.user_operation_queue.len() == 1 && *st.user_operation_queue.front().unwrap() == 7;
    let passes = match where_ { 0 => if kind_sub { oracle_policy(policy, false, 0, true) } else { oracle_policy(policy, true, q, false) },
                                1 => oracle_policy(policy, true, 0, false), 2 => oracle_policy(policy, false, 0, true), _ => false };
    let over_limit = where_ == 2 && match limit { Some(l) => count0 + 1 > l, None => false };
    assert!(st.resubmit_operation_queue.is_empty() && st.high_priority_operation_queue.is_empty() && st.pending_write_completion_operations.is_empty());
    assert!(st.pending_non_publish_operations.is_empty() && st.pending_publish_operations.is_empty());
    if where_ == 3 {
        assert!(done_n() == 1 && done(0).0 == 7 && done(0).1 == E_CONN_CLOSED && st.user_operation_queue.is_empty());
    } else if over_limit {
        // interrupted for the (N+1)-th time while sent-but-unacknowledged: retries-exceeded error, first and foremost
        assert!(done_n() >= 1 && done(0).0 == 7 && done(0).1 == E_RETRIES, "gv: the (N+1)-th interruption must fail the operation with the retries-exceeded error");
    } else if passes {
        assert!(done_n() == 0 && in_user, "gv: an operation the policy preserves must be kept while offline");
    } else {
        assert!(done_n() == 1 && done(0).0 == 7 && done(0).1 == E_OFFLINE && st.user_operation_queue.is_empty(), "gv: an operation the policy rejects must be failed with the offline-policy error");
    }
    std::mem::forget(r); std::mem::forget(events); std::mem::forget(st);
}

/// CONNACK without session: a retransmission-queue publish meets the offline policy (kept as a fresh publish or failed)
fn session_absent_policy_body(policy: OfflineQueuePolicy, q: u8) {
    done_reset();
    let mut cfg = mk_config();
    cfg.offline_queue_policy = policy;
    let mut st = ProtocolState::new(cfg);
    st.state = ProtocolStateType::Connected;
    let p1: u16 = kani::any();
    kani::assume(p1 != 0);
    let mut a = mk_publish_op(3, Some(p1), qos_of(q), true);
    let has_pubrel = q == 2 && kani::any::<bool>();
    if has_pubrel { a.qos2_pubrel = Some(Box::new(MqttPacket::Pubrel(PubrelPacket { packet_id: p1, ..Default::default() }))); }
    st.operations.insert(3, a);
    st.allocated_packet_ids.insert(p1, 3);
    st.resubmit_operation_queue.push_back(3);
    let r = st.apply_session_present_to_connection(false);
    assert!(r.is_ok());
    assert!(st.resubmit_operation_queue.is_empty() && st.allocated_packet_ids.is_empty());
    if oracle_policy(policy, true, q, false) {
        assert!(done_n() == 0, "gv: a publish the policy preserves must be restarted, not failed, when the session is lost");
        assert!(st.user_operation_queue.len() == 1 && *st.user_operation_queue.front().unwrap() == 3);
        let o = st.operations.get(&3).unwrap();
        let p = publish_of(&st, 3);
        // restarted as a fresh publish: DUP=0, no identifier, PUBREL forgotten
        assert!(!p.duplicate && p.packet_id == 0 && o.packet_id.is_none() && o.qos2_pubrel.is_none(), "gv: a restarted publish must be a fresh publish");
    } else {
        assert!(done_n() == 1 && done(0).0 == 3 && done(0).1 == E_OFFLINE && st.user_operation_queue.is_empty(), "gv: a publish the policy rejects must be failed when the session is lost");
    }
    std::mem::forget(r); std::mem::forget(st);
}

/// submission while not connected: kept or failed strictly by policy (C15), while connected always queued
fn submit_body(kind: u8, q: u8) {
    done_reset();
    let mut cfg = mk_config();
    let policy = any_policy();
    cfg.offline_queue_policy = policy;
    let mut st = ProtocolState::new(cfg);
    st.state = any_state();
    let connected = st.state == ProtocolStateType::Connected;
    let ev = match kind {
        0 => super::UserEvent::Publish(Box::new(MqttPacket::Publish(PublishPacket { topic: "t".to_string(), qos: qos_of(q), ..Default::default() })),
                                        PublishOptionsInternal { options: PublishOptions::default(), response_handler: Some(mk_publish_handler()) }),
        1 => super::UserEvent::Subscribe(Box::new(MqttPacket::Subscribe(SubscribePacket { ..Default::default() })),
                                        SubscribeOptionsInternal { options: SubscribeOptions::default(), response_handler: None }),
        _ => super::UserEvent::Unsubscribe(Box::new(MqttPacket::Unsubscribe(UnsubscribePacket { ..Default::default() })),
                                        UnsubscribeOptionsInternal { options: UnsubscribeOptions::default(), response_handler: None }),
    };
    st.handle_user_event(super::UserEventContext { event: ev, current_time: zero_instant() });
    let passes = connected || if kind == 0 { oracle_policy(policy, true, q, false) } else { oracle_policy(policy, false, 0, true) };
    kani::cover!(!passes, "rejected at submission");
    kani::cover!(passes && !connected, "kept while offline");
    if passes {
        assert!(done_n() == 0 && st.user_operation_queue.len() == 1 && *st.user_operation_queue.back().unwrap() == 1, "gv: a preserved operation is queued at the back of the user queue");
    } else {
        assert!(done_n() == 1 && done(0).0 == 1 && done(0).1 == E_OFFLINE && st.user_operation_queue.is_empty(), "gv: a rejected operation is failed with the offline-policy error at submission");
    }
    std::mem::forget(st);
}

/// ack timeouts in service: every record whose deadline has passed is failed with the ack-timeout error, earliest first, nothing else
fn ack_timeouts_body() {
    done_reset();
    let mut st = mk_state(ProtocolStateType::Connected);
    let t1 = zero_instant() + Duration::new(kani::any::<u32>() as u64, kani::any::<u32>() % 1_000_000_000);
    let t2 = zero_instant() + Duration::new(kani::any::<u32>() as u64, kani::any::<u32>() % 1_000_000_000);
    st.operation_ack_timeouts.push(Reverse(OperationTimeoutRecord { id: 11, timeout: t1 }));
    st.operation_ack_timeouts.push(Reverse(OperationTimeoutRecord { id: 12, timeout: t2 }));
    st.current_time = zero_instant() + Duration::new(kani::any::<u32>() as u64, kani::any::<u32>() % 1_000_000_000);
    let r = st.process_ack_timeouts();
    assert!(r.is_ok());
    let due1 = t1 <= st.current_time;
    let due2 = t2 <= st.current_time;
    kani::cover!(due2 && !due1, "only the later-submitted operation is due");
    kani::cover!(due1 && due2, "both due");
    let n = (due1 as usize) + (due2 as usize);
    assert!(done_n() == n, "gv: exactly the operations whose ack deadline has passed are failed");
    assert!(st.operation_ack_timeouts.len() == 2 - n);
    let mut i = 0;
    while i < n { assert!(done(i).1 == E_ACK_TIMEOUT); i += 1; }
    if n == 1 { assert!(done(0).0 == if due1 { 11 } else { 12 }, "gv: the operation that is due is the one failed"); }
    if n == 2 { assert!((done(0).0 == 11 && done(1).0 == 12) || (done(0).0 == 12 && done(1).0 == 11)); if t1 < t2 { assert!(done(0).0 == 11); } if t2 < t1 { assert!(done(0).0 == 12); } }
    std::mem::forget(r); std::mem::forget(st);
}

// ------------------------------------------------------------------------------------------------
// The send loop (service_queue_aux) with the encoder, last-chance validation and completion replaced by recorders:
// WHICH packet of an operation is handed to the encoder, WHEN validation and alias resolution happen, and when the
// loop stops. (What the encoder and the validators do is decided by the C02 / C16 harnesses.)
// ------------------------------------------------------------------------------------------------

static mut ENC_RESETS: usize = 0;
static mut ENC_KIND: [u8; 4] = [0; 4];     // packet type handed to Encoder::reset: 3 publish, 6 pubrel, 8 subscribe, 14 disconnect, 4 puback, 12 pingreq, 1 connect
static mut ENC_PID: [u16; 4] = [0; 4];
static mut ENC_SKIP_TOPIC: [bool; 4] = [false; 4];
static mut VALIDATE_CALLS: usize = 0;
static mut VALIDATE_FAIL: bool = false;
static mut VALIDATE_SAW_ID: u16 = 0;
static mut VALIDATE_RES_SOME: bool = false;
static mut VALIDATE_RES_SKIP: bool = false;
static mut VALIDATE_RES_ALIAS: u16 = 0;
static mut ENC_ALIAS: [u16; 4] = [0; 4];

fn packet_kind(p: &MqttPacket) -> (u8, u16) {
    match p {
        MqttPacket::Connect(_) => (1, 0), MqttPacket::Publish(x) => (3, x.packet_id), MqttPacket::Puback(x) => (4, x.packet_id), MqttPacket::Pubrec(x) => (5, x.packet_id),
        MqttPacket::Pubrel(x) => (6, x.packet_id), MqttPacket::Pubcomp(x) => (7, x.packet_id), MqttPacket::Subscribe(x) => (8, x.packet_id),
        MqttPacket::Unsubscribe(x) => (10, x.packet_id), MqttPacket::Pingreq(_) => (12, 0), MqttPacket::Disconnect(_) => (14, 0), _ => (99, 0),
    }
}

fn stub_encoder_reset(_this: &mut crate::encode::Encoder, packet: &MqttPacket, context: &crate::encode::EncodingContext) -> GneissResult<()> {
    let (k, pid) = packet_kind(packet);
    unsafe { if ENC_RESETS < 4 { ENC_KIND[ENC_RESETS] = k; ENC_PID[ENC_RESETS] = pid; ENC_SKIP_TOPIC[ENC_RESETS] = context.outbound_alias_resolution.skip_topic; ENC_ALIAS[ENC_RESETS] = context.outbound_alias_resolution.alias.unwrap_or(0); } ENC_RESETS += 1; }
    Ok(())
}

/// every packet fits into the buffer in one go: writes one marker byte
fn stub_encoder_encode(_this: &mut crate::encode::Encoder, _packet: &MqttPacket, dest: &mut Vec<u8>) -> GneissResult<crate::encode::EncodeResult> {
    dest.push(0xAA);
    Ok(crate::encode::EncodeResult::Complete)
}

fn stub_validate_internal(packet: &MqttPacket, context: &crate::validate::OutboundValidationContext) -> GneissResult<()> {
    unsafe { VALIDATE_CALLS += 1; VALIDATE_SAW_ID = packet_kind(packet).1; }
    unsafe { match &context.outbound_alias_resolution { Some(r) => { VALIDATE_RES_SOME = true; VALIDATE_RES_SKIP = r.skip_topic; VALIDATE_RES_ALIAS = r.alias.unwrap_or(0); } None => { VALIDATE_RES_SOME = false; } } }
    if unsafe { VALIDATE_FAIL } { return Err(GneissError::new_packet_validation(crate::mqtt::PacketType::Publish, "gv: stub validation failure")); }
    Ok(())
}

/// shape: 0 = QoS1 publish in the user queue, 1 = QoS2 publish with PUBREL slot in the high-priority queue (PUBREC received),
/// 2 = retransmitted QoS2 publish with PUBREL slot in the retransmission queue (resumed session), 3 = DISCONNECT in the high-priority
/// queue followed by a PINGREQ, 4 = publish that fails last-chance validation, 5 = aliased publish that fails last-chance validation (manual resolver)
fn send_loop_body(shape: u8) {
    done_reset();
    unsafe { ENC_RESETS = 0; VALIDATE_CALLS = 0; VALIDATE_FAIL = shape == 4 || shape == 5; VALIDATE_RES_SOME = false; VALIDATE_RES_SKIP = false; VALIDATE_RES_ALIAS = 0; }
    let mut st = mk_state(ProtocolStateType::Connected);
    st.current_settings = Some(NegotiatedSettings { receive_maximum_from_server: 10, ..Default::default() });
    let pid: u16 = kani::any();
    kani::assume(pid != 0);
    match shape {
        0 => { st.operations.insert(1, mk_publish_op(1, None, QualityOfService::AtLeastOnce, false)); st.user_operation_queue.push_back(1); }
        1 | 2 => {
            let mut o = mk_publish_op(1, Some(pid), QualityOfService::ExactlyOnce, shape == 2);
            o.qos2_pubrel = Some(Box::new(MqttPacket::Pubrel(PubrelPacket { packet_id: pid, ..Default::default() })));
            st.operations.insert(1, o);
            st.allocated_packet_ids.insert(pid, 1);
            if shape == 1 { st.pending_publish_operations.insert(pid, 1); st.high_priority_operation_queue.push_back(1); } else { st.resubmit_operation_queue.push_back(1); }
        }
        3 => {
            st.operations.insert(1, mk_internal_op(1, MqttPacket::Disconnect(DisconnectPacket { ..Default::default() })));
            st.high_priority_operation_queue.push_back(1);
            st.operations.insert(2, mk_internal_op(2, MqttPacket::Pingreq(PingreqPacket {})));
            st.high_priority_operation_queue.push_back(2);
        }
        5 => {
            // manual alias resolver, server allows 5 aliases; the publish asks for alias 1 on topic "t" and then FAILS send-time validation
            let mut resolver = crate::alias::OutboundAliasResolverFactory::new_manual_factory()();
            resolver.reset_for_new_connection(5);
            st.outbound_alias_resolver = std::cell::RefCell::new(resolver);
            let mut o = mk_publish_op(1, None, QualityOfService::AtMostOnce, false);
            if let MqttPacket::Publish(p) = &mut *o.packet { p.topic = "t".to_string(); p.topic_alias = Some(1); }
            st.operations.insert(1, o);
            st.user_operation_queue.push_back(1);
        }
        6 | 7 => {
            // manual alias resolver, server allows 5 aliases; the publish asks for (symbolic) alias a on topic "t" and PASSES validation.
            // shape 6: alias not bound yet (topic + alias property go out); shape 7: already bound on this connection (empty topic goes out)
            let mut resolver = crate::alias::OutboundAliasResolverFactory::new_manual_factory()();
            resolver.reset_for_new_connection(5);
            if shape == 7 { let pre = resolver.resolve_and_apply_topic_alias(&Some(pid % 4 + 1), "t"); assert!(!pre.skip_topic); }
            st.outbound_alias_resolver = std::cell::RefCell::new(resolver);
            let mut o = mk_publish_op(1, None, QualityOfService::AtMostOnce, false);
            if let MqttPacket::Publish(p) = &mut *o.packet { p.topic = "t".to_string(); p.topic_alias = Some(pid % 4 + 1); }
            st.operations.insert(1, o);
            st.user_operation_queue.push_back(1);
        }
        _ => {
            st.operations.insert(1, mk_publish_op(1, None, QualityOfService::AtLeastOnce, false));
            st.user_operation_queue.push_back(1);
        }
    }
    let mut to_socket: Vec<u8> = Vec::with_capacity(16);
    let now = at(kani::any::<u32>() as u64);
    let r = {
        let mut sctx = ServiceContext { to_socket: &mut to_socket, current_time: now };
        st.service_queue(&mut sctx, ProtocolQueueServiceMode::All)
    };
    assert!(r.is_ok());
    let resets = unsafe { ENC_RESETS };
    match shape {
        0 => {
            // bound to a fresh id BEFORE validation and encoding; sent as PUBLISH with that id; then awaits its ack
            assert!(resets == 1 && unsafe { ENC_KIND[0] } == 3 && unsafe { ENC_PID[0] } != 0 && unsafe { VALIDATE_CALLS } == 1 && unsafe { VALIDATE_SAW_ID } == unsafe { ENC_PID[0] });
            assert!(st.pending_publish_operations.get(&unsafe { ENC_PID[0] }) == Some(&1) && st.pending_write_completion && to_socket.len() == 1);
        }
        1 | 2 => {
            // once a PUBREC has been received the PUBLISH is never sent again: the PUBREL with the same id goes out
            assert!(resets == 1 && unsafe { ENC_KIND[0] } == 6 && unsafe { ENC_PID[0] } == pid, "gv: after PUBREC the PUBREL (same id) is sent, never the PUBLISH again");
            assert!(st.pending_publish_operations.get(&pid) == Some(&1) && st.allocated_packet_ids.get(&pid) == Some(&1) && done_n() == 0);
        }
        3 => {
            // once a DISCONNECT has been written nothing further is sent on that connection
            assert!(resets == 1 && unsafe { ENC_KIND[0] } == 14, "gv: nothing is sent after a DISCONNECT has been written");
            assert!(st.state == ProtocolStateType::PendingDisconnect && st.high_priority_operation_queue.len() == 1 && to_socket.len() == 1);
        }
        6 | 7 => {
            // the limits (maximum packet size) must be checked against the form that is transmitted: validation sees the very alias
            // resolution the encoder is given (alias property present; topic omitted iff the alias is already bound on this connection)
            assert!(resets == 1 && unsafe { ENC_KIND[0] } == 3 && unsafe { VALIDATE_CALLS } == 1);
            assert!(unsafe { ENC_ALIAS[0] } == pid % 4 + 1 && unsafe { ENC_SKIP_TOPIC[0] } == (shape == 7), "gv: the alias resolution handed to the encoder is the resolver's");
            assert!(unsafe { VALIDATE_RES_SOME } && unsafe { VALIDATE_RES_ALIAS } == unsafe { ENC_ALIAS[0] } && unsafe { VALIDATE_RES_SKIP } == unsafe { ENC_SKIP_TOPIC[0] },
                "gv: send-time validation must check the packet in the form (alias, topic omitted or not) in which it is encoded");
        }
        5 => {
            assert!(resets == 0 && done_n() == 1 && done(0).1 == E_VALIDATION);
            // the PUBLISH that would have announced "alias 1 = t" was never sent, so the next publish on that topic must still carry the topic
            let next = st.outbound_alias_resolver.borrow_mut().resolve_and_apply_topic_alias(&Some(1), "t");
            assert!(!next.skip_topic, "gv: an alias binding that was never transmitted (operation failed validation after alias resolution) must not be relied upon");
        }
        _ => {
            // an operation failing last-chance validation is failed locally with that error and never reaches the encoder; the loop goes on
            assert!(resets == 0 && done_n() == 1 && done(0).0 == 1 && done(0).1 == E_VALIDATION && to_socket.is_empty(), "gv: an operation failing send-time validation is failed locally and never encoded");
            assert!(st.current_operation.is_none() && st.user_operation_queue.is_empty() && st.pending_publish_operations.is_empty());
        }
    }
    std::mem::forget(r); std::mem::forget(st);
}

include!("protocol_gen.rs");

// ------------------------------------------------------------------------------------------------
// C01 completion internals: the REAL complete_operation_as_success / complete_operation_as_failure (no recorder),
// the REAL result callbacks invoked through the real boxed FnOnce, and the real `reset`.
// Per-operation result slots: handler k records how often it ran, whether with Ok, and the packet id / number of
// reason codes of the acknowledgement it was handed.
// ------------------------------------------------------------------------------------------------

static mut H_CALLS: [u32; 3] = [0; 3];
static mut H_OK: [u32; 3] = [0; 3];
static mut H_PID: [u16; 3] = [0; 3];
static mut H_KIND: [u8; 3] = [0; 3];
static mut H_CODES: [usize; 3] = [0; 3];

fn h_reset() { unsafe { H_CALLS = [0; 3]; H_OK = [0; 3]; H_PID = [0; 3]; H_KIND = [0; 3]; H_CODES = [0; 3]; } }
fn h_calls(k: usize) -> u32 { unsafe { H_CALLS[k] } }
fn h_ok(k: usize) -> u32 { unsafe { H_OK[k] } }
fn h_pid(k: usize) -> u16 { unsafe { H_PID[k] } }
fn h_kind(k: usize) -> u8 { unsafe { H_KIND[k] } }
fn h_codes(k: usize) -> usize { unsafe { H_CODES[k] } }

fn err_kind(e: &GneissError) -> u8 {
    match e {
        GneissError::OfflineQueuePolicyFailed(_) => E_OFFLINE, GneissError::AckTimeout(_) => E_ACK_TIMEOUT, GneissError::ConnectionClosed(_) => E_CONN_CLOSED,
        GneissError::MaxInterruptedRetriesExceeded(_) => E_RETRIES, GneissError::ClientClosed(_) => E_CLIENT_CLOSED, GneissError::PacketValidationFailure(_) => E_VALIDATION,
        _ => E_OTHER,
    }
}

/// kind: 0/1/2 = publish with that QoS, 3 = subscribe (one entry), 4 = unsubscribe (one entry)
fn mk_recording_op(id: u64, pid: Option<u16>, kind: u8, slot: usize) -> ClientOperation {
    let (packet, options) = match kind {
        0 | 1 | 2 => {
            let handler: ResponseHandler<PublishResult> = Box::new(move |res| {
                unsafe {
                    H_CALLS[slot] += 1;
                    match &res {
                        Ok(PublishResponse::Qos0) => { H_OK[slot] += 1; H_KIND[slot] = K_OK_QOS0; }
                        Ok(PublishResponse::Qos1(p)) => { H_OK[slot] += 1; H_KIND[slot] = K_OK_PUBACK; H_PID[slot] = p.packet_id; }
                        Ok(PublishResponse::Qos2(Qos2Response::Pubrec(p))) => { H_OK[slot] += 1; H_KIND[slot] = K_OK_PUBREC; H_PID[slot] = p.packet_id; }
                        Ok(PublishResponse::Qos2(Qos2Response::Pubcomp(p))) => { H_OK[slot] += 1; H_KIND[slot] = K_OK_PUBCOMP; H_PID[slot] = p.packet_id; }
                        Err(e) => { H_KIND[slot] = err_kind(e); }
                    }
                }
                std::mem::forget(res);
                Ok(())
            });
            (MqttPacket::Publish(PublishPacket { packet_id: pid.unwrap_or(0), qos: qos_of(kind), ..Default::default() }),
             ClientOperationOptions::Publish(PublishOptionsInternal { options: PublishOptions::default(), response_handler: Some(handler) }))
        }
        3 => {
            let handler: ResponseHandler<SubscribeResult> = Box::new(move |res| {
                unsafe {
                    H_CALLS[slot] += 1;
                    match &res {
                        Ok(p) => { H_OK[slot] += 1; H_KIND[slot] = K_OK_SUBACK; H_PID[slot] = p.packet_id; H_CODES[slot] = p.reason_codes.len(); }
                        Err(e) => { H_KIND[slot] = err_kind(e); }
                    }
                }
                std::mem::forget(res);
                Ok(())
            });
            let mut sp = SubscribePacket { packet_id: pid.unwrap_or(0), ..Default::default() };
            sp.subscriptions.push(Subscription { topic_filter: "a".to_string(), ..Default::default() });
            (MqttPacket::Subscribe(sp), ClientOperationOptions::Subscribe(SubscribeOptionsInternal { options: SubscribeOptions::default(), response_handler: Some(handler) }))
        }
        _ => {
            let handler: ResponseHandler<UnsubscribeResult> = Box::new(move |res| {
                unsafe {
                    H_CALLS[slot] += 1;
                    match &res {
                        Ok(p) => { H_OK[slot] += 1; H_KIND[slot] = K_OK_UNSUBACK; H_PID[slot] = p.packet_id; H_CODES[slot] = p.reason_codes.len(); }
                        Err(e) => { H_KIND[slot] = err_kind(e); }
                    }
                }
                std::mem::forget(res);
                Ok(())
            });
            let mut up = UnsubscribePacket { packet_id: pid.unwrap_or(0), ..Default::default() };
            up.topic_filters.push("a".to_string());
            (MqttPacket::Unsubscribe(up), ClientOperationOptions::Unsubscribe(UnsubscribeOptionsInternal { options: UnsubscribeOptions::default(), response_handler: Some(handler) }))
        }
    };
    ClientOperation { id, packet: Box::new(packet), qos2_pubrel: None, packet_id: pid, options: Some(options),
        ping_extension_base_timepoint: None, slow_start_ack_value: 0, interruption_count: 0 }
}

/// Two written operations awaiting their acknowledgements: target (operation 3, slot 0, kind `kind`, id p1) and a bystander
/// (operation 5, slot 1, kind `other`, id p2), both bound and reserved.
fn real_two_pending(kind: u8, other: u8) -> (ProtocolState, u16, u16) {
    h_reset();
    let mut st = mk_state(ProtocolStateType::Connected);
    let (p1, p2): (u16, u16) = (kani::any(), kani::any());
    kani::assume(p1 != 0 && p2 != 0 && p1 != p2);
    st.operations.insert(3, mk_recording_op(3, Some(p1), kind, 0));
    st.allocated_packet_ids.insert(p1, 3);
    if kind <= 2 { st.pending_publish_operations.insert(p1, 3); } else { st.pending_non_publish_operations.insert(p1, 3); }
    // the bystander (operation 5) is represented by its table entries only: two boxed operations in the table at once
    // exhaust memory (measured: 8 GB / 15 min without verdict); the completion functions reach another operation
    // only through these tables
    st.allocated_packet_ids.insert(p2, 5);
    if other <= 2 { st.pending_publish_operations.insert(p2, 5); } else { st.pending_non_publish_operations.insert(p2, 5); }
    (st, p1, p2)
}

fn real_target_gone_bystander_kept(st: &ProtocolState, p1: u16, p2: u16, other: u8) {
    assert!(st.operations.len() == 0 && st.operations.get(&3).is_none(), "gv: a resolved operation is no longer tracked");
    assert!(st.allocated_packet_ids.get(&p1).is_none() && st.allocated_packet_ids.get(&p2) == Some(&5) && st.allocated_packet_ids.len() == 1, "gv: resolving an operation releases exactly its own packet id");
    assert!(st.pending_publish_operations.get(&p1).is_none() && st.pending_non_publish_operations.get(&p1).is_none(), "gv: a resolved operation no longer awaits an acknowledgement");
    if other <= 2 { assert!(st.pending_publish_operations.get(&p2) == Some(&5), "gv: the other operation still awaits its acknowledgement"); }
    else { assert!(st.pending_non_publish_operations.get(&p2) == Some(&5), "gv: the other operation still awaits its acknowledgement"); }
    assert!(h_calls(1) == 0, "gv: resolving one operation must not resolve another");
}

fn real_fail_body(kind: u8, other: u8) {
    let (mut st, p1, p2) = real_two_pending(kind, other);
    let (err, ek) = (GneissError::new_offline_queue_policy_failed(), E_OFFLINE);
    let r = st.complete_operation_as_failure(3, err);
    assert!(r.is_ok());
    assert!(h_calls(0) == 1 && h_ok(0) == 0, "gv: a failed operation's result is delivered exactly once, as an error");
    assert!(h_kind(0) == ek, "gv: the error delivered is the error the engine failed the operation with");
    real_target_gone_bystander_kept(&st, p1, p2, other);
    // a second resolution attempt (late acknowledgement, timeout racing the ack, reset) must not deliver anything again
    let r2 = st.complete_operation_as_failure(3, GneissError::new_client_closed());
    assert!(r2.is_ok());
    assert!(h_calls(0) == 1 && h_calls(1) == 0, "gv: no operation is resolved twice");
    real_target_gone_bystander_kept(&st, p1, p2, other);
    std::mem::forget(r); std::mem::forget(r2); std::mem::forget(st);
}

/// resp: 0 = none (QoS0 written), 1 = PUBACK, 2 = failing PUBREC, 3 = PUBCOMP, 4 = SUBACK, 5 = UNSUBACK
fn real_success_body(kind: u8, other: u8, resp: u8) {
    let (mut st, p1, p2) = real_two_pending(kind, other);
    let response = match resp {
        0 => None,
        1 => Some(OperationResponse::Publish(PublishResponse::Qos1(PubackPacket { packet_id: p1, ..Default::default() }))),
        2 => Some(OperationResponse::Publish(PublishResponse::Qos2(Qos2Response::Pubrec(PubrecPacket { packet_id: p1, reason_code: PubrecReasonCode::NotAuthorized, ..Default::default() })))),
        3 => Some(OperationResponse::Publish(PublishResponse::Qos2(Qos2Response::Pubcomp(PubcompPacket { packet_id: p1, ..Default::default() })))),
        4 => { let mut a = SubackPacket { packet_id: p1, ..Default::default() }; a.reason_codes.push(crate::mqtt::SubackReasonCode::GrantedQos1); Some(OperationResponse::Subscribe(a)) }
        _ => { let mut a = UnsubackPacket { packet_id: p1, ..Default::default() }; a.reason_codes.push(crate::mqtt::UnsubackReasonCode::Success); Some(OperationResponse::Unsubscribe(a)) }
    };
    let r = st.complete_operation_as_success(3, response);
    assert!(r.is_ok());
    assert!(h_calls(0) == 1 && h_ok(0) == 1, "gv: a successful operation's result is delivered exactly once, as a success");
    let expect_kind = match resp { 0 => K_OK_QOS0, 1 => K_OK_PUBACK, 2 => K_OK_PUBREC, 3 => K_OK_PUBCOMP, 4 => K_OK_SUBACK, _ => K_OK_UNSUBACK };
    assert!(h_kind(0) == expect_kind, "gv: the success carries the acknowledgement the engine resolved the operation with");
    if resp != 0 { assert!(h_pid(0) == p1, "gv: the acknowledgement delivered is the one for this operation's packet id"); }
    if resp >= 4 { assert!(h_codes(0) == 1, "gv: one reason code per requested entry reaches the caller"); }
    real_target_gone_bystander_kept(&st, p1, p2, other);
    // late duplicate acknowledgement / racing timeout: nothing is delivered again
    let r2 = st.complete_operation_as_failure(3, GneissError::new_client_closed());
    assert!(r2.is_ok());
    let r3 = st.complete_operation_as_success(3, None);
    assert!(r3.is_err(), "gv: completing an operation that is no longer tracked is reported as an internal error");
    assert!(h_calls(0) == 1 && h_calls(1) == 0, "gv: no operation is resolved twice");
    std::mem::forget(r); std::mem::forget(r2); std::mem::forget(r3); std::mem::forget(st);
}

macro_rules! real_fail_harness { ($name:ident, $kind:expr, $other:expr) => {
    #[kani::proof] #[kani::unwind(8)] #[kani::stub(std::fmt::format, stub_format)]
    fn $name() { real_fail_body($kind, $other); }
} }
macro_rules! real_success_harness { ($name:ident, $kind:expr, $other:expr, $resp:expr) => {
    #[kani::proof] #[kani::unwind(8)] #[kani::stub(std::fmt::format, stub_format)]
    fn $name() { real_success_body($kind, $other, $resp); }
} }

// @gv props=C06,C01 tier=quick required=yes fns=ProtocolState::complete_operation_as_failure,complete_operation_with_error,ProtocolState::apply_ackable_completion,ProtocolState::apply_disconnect_completion
// @gv bounds="REAL completion code and real boxed result callbacks: a written QoS1 PUBLISH (symbolic id p1) and a bystander SUBSCRIBE (p2) await acks; engine Connected; the publish is failed (offline-policy error), then failed again (late timeout / reset)"
// @gv timeout=1200 mem=11 unwind=8 stubs="std::fmt::format -> stub_format"
real_fail_harness!(c01_real_fail_q1, 1, 3);
// @gv props=C01,C06 tier=thorough required=no fns=ProtocolState::complete_operation_as_failure,complete_operation_with_error
// @gv bounds="as c01_real_fail_q1 for a SUBSCRIBE with a QoS2 PUBLISH bystander"
// @gv timeout=1200 mem=11 unwind=8 stubs="std::fmt::format -> stub_format"
real_fail_harness!(c01_real_fail_sub, 3, 2);
// @gv props=C01,C06 tier=thorough required=no fns=ProtocolState::complete_operation_as_failure,complete_operation_with_error
// @gv bounds="as c01_real_fail_q1 for a QoS2 PUBLISH with an UNSUBSCRIBE bystander"
// @gv timeout=1200 mem=11 unwind=8 stubs="std::fmt::format -> stub_format"
real_fail_harness!(c01_real_fail_q2, 2, 4);
// @gv props=C01,C06 tier=thorough required=no fns=ProtocolState::complete_operation_as_failure,complete_operation_with_error
// @gv bounds="as c01_real_fail_q1 for an UNSUBSCRIBE with a QoS1 PUBLISH bystander"
// @gv timeout=1200 mem=11 unwind=8 stubs="std::fmt::format -> stub_format"
real_fail_harness!(c01_real_fail_unsub, 4, 1);

// @gv props=C06,C01 tier=quick required=yes fns=ProtocolState::complete_operation_as_success,complete_operation_with_result,ProtocolState::apply_ackable_completion,ProtocolState::apply_ping_extension_on_operation_success,ProtocolState::apply_disconnect_completion
// @gv bounds="REAL completion code and real boxed result callbacks: a written QoS1 PUBLISH (symbolic id p1) and a bystander SUBSCRIBE (p2); resolved with its PUBACK; then a late failure and a late success for the same operation"
// @gv timeout=1200 mem=11 unwind=8 stubs="std::fmt::format -> stub_format"
real_success_harness!(c01_real_ok_q1_puback, 1, 3, 1);
// @gv props=C01,C06 tier=thorough required=no fns=ProtocolState::complete_operation_as_success,complete_operation_with_result
// @gv bounds="as c01_real_ok_q1_puback for a SUBSCRIBE resolved with its SUBACK (one reason code), QoS2 PUBLISH bystander"
// @gv timeout=1200 mem=11 unwind=8 stubs="std::fmt::format -> stub_format"
real_success_harness!(c01_real_ok_sub_suback, 3, 2, 4);
// @gv props=C01,C06 tier=thorough required=no fns=ProtocolState::complete_operation_as_success,complete_operation_with_result
// @gv bounds="as c01_real_ok_q1_puback for a QoS2 PUBLISH resolved with its PUBCOMP, UNSUBSCRIBE bystander"
// @gv timeout=1200 mem=11 unwind=8 stubs="std::fmt::format -> stub_format"
real_success_harness!(c01_real_ok_q2_pubcomp, 2, 4, 3);
// @gv props=C01,C06 tier=thorough required=no fns=ProtocolState::complete_operation_as_success,complete_operation_with_result
// @gv bounds="as c01_real_ok_q1_puback for a QoS2 PUBLISH resolved with a failing PUBREC"
// @gv timeout=1200 mem=11 unwind=8 stubs="std::fmt::format -> stub_format"
real_success_harness!(c01_real_ok_q2_pubrec_fail, 2, 3, 2);
// @gv props=C01,C06 tier=thorough required=no fns=ProtocolState::complete_operation_as_success,complete_operation_with_result
// @gv bounds="as c01_real_ok_q1_puback for an UNSUBSCRIBE resolved with its UNSUBACK"
// @gv timeout=1200 mem=11 unwind=8 stubs="std::fmt::format -> stub_format"
real_success_harness!(c01_real_ok_unsub_unsuback, 4, 1, 5);
// @gv props=C01 tier=thorough required=no fns=ProtocolState::complete_operation_as_success,complete_operation_with_result
// @gv bounds="as c01_real_ok_q1_puback for a QoS0 PUBLISH resolved as written (no acknowledgement)"
// @gv timeout=1200 mem=11 unwind=8 stubs="std::fmt::format -> stub_format"
real_success_harness!(c01_real_ok_q0_written, 0, 3, 0);


// @gv props=C01,C06 tier=thorough required=no fns=ProtocolState::reset,ProtocolState::complete_operation_as_failure,complete_operation_with_error
// @gv bounds="REAL reset (client closed) with the real completion code and callback: one tracked QoS1 publish awaiting its ack (symbolic id), plus leftovers in every other table (a queued id, an inbound QoS2 id, a foreign reservation, an ack-timeout record, armed timers, pending write completion); engine state symbolic"
// @gv timeout=1200 mem=11 unwind=8 stubs="std::fmt::format -> stub_format"
#[kani::proof]
#[kani::unwind(8)]
#[kani::stub(std::fmt::format, stub_format)]
fn c01_real_reset_one() {
    h_reset();
    let mut st = mk_state(ProtocolStateType::Connected);
    let (p1, p2): (u16, u16) = (kani::any(), kani::any());
    kani::assume(p1 != 0 && p2 != 0 && p1 != p2);
    st.operations.insert(3, mk_recording_op(3, Some(p1), 1, 0));
    st.allocated_packet_ids.insert(p1, 3);
    st.pending_publish_operations.insert(p1, 3);
    st.allocated_packet_ids.insert(p2, 5);
    st.pending_non_publish_operations.insert(p2, 5);
    st.qos2_incomplete_incoming_publishes.insert(p2);
    st.user_operation_queue.push_back(9);
    st.resubmit_operation_queue.push_back(9);
    st.high_priority_operation_queue.push_back(9);
    st.pending_write_completion_operations.push_back(9);
    st.pending_write_completion = true;
    st.current_operation = Some(9);
    st.next_ping_timepoint = Some(at(5)); st.ping_timeout_timepoint = Some(at(6)); st.connack_timeout_timepoint = Some(at(7));
    st.next_packet_id = kani::any();
    st.has_connected_successfully = true;
    st.state = any_state();
    let was_disconnected = st.state == ProtocolStateType::Disconnected;
    let now = at(kani::any::<u32>() as u64);
    st.reset(&now);
    assert!(h_calls(0) == 1 && h_ok(0) == 0 && h_kind(0) == E_CLIENT_CLOSED, "gv: reset resolves every unresolved operation exactly once with the client-closed error");
    assert!(st.operations.len() == 0 && st.allocated_packet_ids.len() == 0 && st.pending_publish_operations.len() == 0 && st.pending_non_publish_operations.len() == 0
        && st.qos2_incomplete_incoming_publishes.len() == 0 && st.operation_ack_timeouts.len() == 0, "gv: nothing stays tracked after reset");
    assert!(st.user_operation_queue.is_empty() && st.resubmit_operation_queue.is_empty() && st.high_priority_operation_queue.is_empty()
        && st.pending_write_completion_operations.is_empty() && st.current_operation.is_none() && !st.pending_write_completion, "gv: nothing stays queued after reset");
    assert!(st.next_ping_timepoint.is_none() && st.ping_timeout_timepoint.is_none() && st.connack_timeout_timepoint.is_none() && st.current_settings.is_none());
    assert!(st.next_packet_id == 1 && !st.has_connected_successfully);
    assert!(st.state == if was_disconnected { ProtocolStateType::Disconnected } else { ProtocolStateType::Halted });
    std::mem::forget(st);
}

// ------------------------------------------------------------------------------------------------
// C01 batch completion: one operation's completion error must not leave the rest of the batch unresolved
// ------------------------------------------------------------------------------------------------

/// as stub_complete_success, but mirrors the real function's error for an operation that is no longer tracked
fn stub_complete_success_missing_errs(this: &mut ProtocolState, id: u64, completion_result: Option<OperationResponse>) -> GneissResult<()> {
    let tracked = this.operations.get(&id).is_some();
    done_push(id, if completion_result.is_none() { K_OK_NONE } else { K_OK_QOS0 }, 0, 0);
    std::mem::forget(completion_result);
    if tracked { Ok(()) } else { Err(GneissError::new_internal_state_error("cannot complete an operation that does not exist")) }
}

/// as stub_complete_failure, but mirrors the real function's error result when the failed operation is the user's DISCONNECT
fn stub_complete_failure_disconnect_errs(this: &mut ProtocolState, id: u64, error: GneissError) -> GneissResult<()> {
    let is_disconnect = match this.operations.get(&id) { Some(o) => matches!(&*o.packet, MqttPacket::Disconnect(_)), None => false };
    done_push(id, E_OTHER, 0, 0);
    std::mem::forget(error);
    if is_disconnect { Err(GneissError::new_user_initiated_disconnect()) } else { Ok(()) }
}

// @gv props=C01 tier=quick required=yes fns=ProtocolState::handle_network_event_write_completion,ProtocolState::complete_operation_sequence_as_empty_success,fold_mqtt_result
// @gv bounds="write completion with a batch of two flushed operations of which the FIRST was already resolved (e.g. by its ack timeout during a slow write) and the second is a tracked QoS0 publish; completion recorded (returns the real function's error for the untracked one); engine Connected or PendingDisconnect"
// @gv timeout=900 mem=8
#[kani::proof]
#[kani::unwind(16)]
#[kani::stub(std::fmt::format, stub_format)]
#[kani::stub(super::ProtocolState::complete_operation_as_success, stub_complete_success_missing_errs)]
#[kani::stub(super::ProtocolState::complete_operation_as_failure, stub_complete_failure)]
fn c01_write_completion_batch_survives_error() {
    done_reset();
    let mut st = mk_state(if kani::any() { ProtocolStateType::Connected } else { ProtocolStateType::PendingDisconnect });
    st.operations.insert(7, mk_publish_op(7, None, QualityOfService::AtMostOnce, false));
    st.pending_write_completion_operations.push_back(4);     // no longer tracked
    st.pending_write_completion_operations.push_back(7);
    st.pending_write_completion = true;
    let mut events: VecDeque<PacketEvent> = VecDeque::new();
    let r = { let ctx = net_ctx(&mut events, zero_instant()); st.handle_network_event_write_completion(&ctx) };
    assert!(done_n() == 2 && done(0).0 == 4 && done(1).0 == 7, "gv: every operation of a flushed batch is resolved, also after an earlier one reported an error");
    assert!(done(1).1 == K_OK_NONE, "gv: a flushed QoS0 publish succeeds without an acknowledgement");
    assert!(r.is_err(), "gv: the internal error is still reported");
    assert!(st.pending_write_completion_operations.is_empty() && !st.pending_write_completion);
    std::mem::forget(r); std::mem::forget(events); std::mem::forget(st);
}

// @gv props=C01,C15 tier=quick required=yes fns=ProtocolState::complete_operation_sequence_as_failure,fold_mqtt_result
// @gv bounds="failing a batch of two operations where failing the first (the user's DISCONNECT) returns the user-initiated-disconnect error: the second (a tracked SUBSCRIBE) must still be failed; completion recorded"
// @gv timeout=900 mem=8
#[kani::proof]
#[kani::unwind(16)]
#[kani::stub(std::fmt::format, stub_format)]
#[kani::stub(super::ProtocolState::complete_operation_as_success, stub_complete_success)]
#[kani::stub(super::ProtocolState::complete_operation_as_failure, stub_complete_failure_disconnect_errs)]
fn c01_failure_batch_survives_error() {
    done_reset();
    let mut st = mk_state(ProtocolStateType::Disconnected);
    st.operations.insert(4, mk_internal_op(4, MqttPacket::Disconnect(DisconnectPacket { ..Default::default() })));
    st.operations.insert(7, mk_subscribe_op(7, None));
    let mut batch: VecDeque<u64> = VecDeque::with_capacity(4);
    batch.push_back(4); batch.push_back(7);
    let r = st.complete_operation_sequence_as_failure(batch.into_iter(), GneissError::new_offline_queue_policy_failed);
    assert!(done_n() == 2 && done(0).0 == 4 && done(1).0 == 7, "gv: every operation of a failed batch is resolved, also after an earlier one reported an error");
    assert!(r.is_err());
    std::mem::forget(r); std::mem::forget(st);
}
