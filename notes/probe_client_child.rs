use super::{MqttClientImpl, ClientImplState};
use crate::client::config::{ReconnectOptions, ExponentialBackoffJitterType, ConnectOptions, OfflineQueuePolicy, ProtocolMode, PostReconnectQueueDrainPolicy};
use crate::protocol::{ProtocolState, ProtocolStateConfig};
use std::collections::VecDeque;
use std::time::{Duration, Instant};

fn zero_instant() -> Instant { unsafe { std::mem::transmute::<[u8; 16], Instant>([0u8; 16]) } }

fn mk_config() -> ProtocolStateConfig {
    ProtocolStateConfig {
        connect_options: ConnectOptions::builder().build(),
        base_timestamp: zero_instant(),
        offline_queue_policy: OfflineQueuePolicy::PreserveAll,
        ping_timeout: Duration::from_millis(30000),
        outbound_alias_resolver: None,
        protocol_mode: ProtocolMode::Mqtt5,
        post_reconnect_queue_drain_policy: PostReconnectQueueDrainPolicy::None,
        max_interrupted_retries: None,
    }
}

fn any_duration() -> Duration {
    let s: u64 = kani::any();
    let n: u32 = kani::any();
    kani::assume(n < 1_000_000_000);
    Duration::new(s, n)
}

fn mk_client(opts: ReconnectOptions, next: Duration) -> MqttClientImpl {
    MqttClientImpl {
        protocol_state: ProtocolState::new(mk_config()),
        listeners: std::collections::HashMap::new(),
        current_state: ClientImplState::PendingReconnect,
        desired_state: ClientImplState::Connected,
        desired_stop_options: None,
        packet_events: VecDeque::new(),
        last_connack: None,
        last_disconnect: None,
        last_error: None,
        last_start_connect_time: None,
        successful_connect_time: None,
        next_reconnect_period: next,
        reconnect_options: opts,
        connect_timeout: Duration::from_secs(30),
        callback_spawner: Box::new(|_, _| {}),
    }
}

pub(crate) fn stub_random_state_new() -> std::hash::RandomState {
    unsafe { std::mem::transmute::<[u64; 2], std::hash::RandomState>([1u64, 2u64]) }
}

// C19: one back-off step without jitter, arbitrary normalized options and current period
#[kani::proof]
#[kani::unwind(3)]
#[kani::stub(std::hash::RandomState::new, stub_random_state_new)]
#[kani::stub(crate::client::MqttClientImpl::compute_uniform_jitter_period, stub_jitter)]
fn probec_advance_no_jitter() {
    let mut opts = ReconnectOptions {
        reconnect_period_jitter: ExponentialBackoffJitterType::None,
        base_reconnect_period: any_duration(),
        max_reconnect_period: any_duration(),
        reconnect_stability_reset_period: any_duration(),
    };
    opts.normalize();
    assert!(opts.base_reconnect_period <= opts.max_reconnect_period);
    assert!(opts.max_reconnect_period >= Duration::from_secs(1));
    let next = any_duration();
    kani::assume(next >= opts.base_reconnect_period && next <= opts.max_reconnect_period);
    let mut c = mk_client(opts, next);
    let wait = c.advance_reconnect_period();      // must not panic for any accepted configuration
    assert!(wait == next);
    assert!(c.next_reconnect_period <= opts.max_reconnect_period);
    std::mem::forget(c);
}

fn stub_jitter(_this: &MqttClientImpl, max_nanos: u128) -> Duration {
    assert!(max_nanos > 0, "cannot sample empty range");
    let x: u128 = kani::any();
    kani::assume(x < max_nanos);
    Duration::from_nanos(x as u64)
}

use crate::client::config::MqttClientOptions;

static mut NOW_MS: u64 = 0;
fn stub_now() -> Instant {
    let step: u64 = kani::any();
    kani::assume(step <= 1_000_000);
    unsafe { NOW_MS += step; zero_instant() + Duration::from_millis(NOW_MS) }
}

// C19 H3: first period after construction equals the normalized base
#[kani::proof]
#[kani::unwind(3)]
#[kani::stub(std::hash::RandomState::new, stub_random_state_new)]
#[kani::stub(std::time::Instant::now, stub_now)]
#[kani::stub(crate::client::MqttClientImpl::compute_uniform_jitter_period, stub_jitter)]
fn probec_initial_period() {
    let base = any_duration();
    let max = any_duration();
    kani::assume(max.as_secs() < (1u64 << 40) && base.as_secs() < (1u64 << 40));
    let mut b = MqttClientOptions::builder();
    b.with_base_reconnect_period(base).with_max_reconnect_period(max).with_reconnect_period_jitter(ExponentialBackoffJitterType::None);
    let opts = b.build();
    let mut c = MqttClientImpl::new(opts, ConnectOptions::builder().build(), Box::new(|_, _| {}));
    let eff_base = if base <= max { base } else { max };
    kani::cover!(base > max, "base and max swapped");
    let wait = c.advance_reconnect_period();
    assert!(wait == eff_base);
    std::mem::forget(c);
}
