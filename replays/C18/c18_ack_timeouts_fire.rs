// Concrete counterexample produced by Kani/CBMC for harness protocol::gv_protocol::c18_ack_timeouts_fire (property C18).
// Replay: ./check C18 --replay /verif/replays/C18/c18_ack_timeouts_fire.rs
// module: protocol_child.rs
/// Test generated for harness `protocol::gv_protocol::c18_ack_timeouts_fire` 
///
/// Check for `cover`: "only the later-submitted operation is due"
///
/// # Warning
///
/// Concrete playback tests combined with stubs or contracts is highly
/// experimental, and subject to change.
///
/// The original harness has stubs which are not applied to this test.
/// This may cause a mismatch of non-deterministic values if the stub
/// creates any non-deterministic value.
/// The execution path may also differ, which can be used to refine the stub
/// logic.

#[test]
fn kani_concrete_playback_c18_ack_timeouts_fire_11724671128892774697() {
    let concrete_vals: Vec<Vec<u8>> = vec![
        // 3
        vec![3, 0, 0, 0],
        // 2999999493
        vec![5, 92, 208, 178],
        // 1
        vec![1, 0, 0, 0],
        // 2999999493
        vec![5, 92, 208, 178],
        // 2
        vec![2, 0, 0, 0],
        // 2000000000
        vec![0, 148, 53, 119],
    ];
    kani::concrete_playback_run(concrete_vals, c18_ack_timeouts_fire);
}

/// Test generated for harness `protocol::gv_protocol::c18_ack_timeouts_fire` 
///
/// Check for `cover`: "both due"
///
/// # Warning
///
/// Concrete playback tests combined with stubs or contracts is highly
/// experimental, and subject to change.
///
/// The original harness has stubs which are not applied to this test.
/// This may cause a mismatch of non-deterministic values if the stub
/// creates any non-deterministic value.
/// The execution path may also differ, which can be used to refine the stub
/// logic.

#[test]
fn kani_concrete_playback_c18_ack_timeouts_fire_9808201475757142984() {
    let concrete_vals: Vec<Vec<u8>> = vec![
        // 536870904
        vec![248, 255, 255, 31],
        // 2999999998
        vec![254, 93, 208, 178],
        // 1073741817
        vec![249, 255, 255, 63],
        // 2999999999
        vec![255, 93, 208, 178],
        // 1073741823
        vec![255, 255, 255, 63],
        // 2446349312
        vec![0, 84, 208, 145],
    ];
    kani::concrete_playback_run(concrete_vals, c18_ack_timeouts_fire);
}

/// Test generated for harness `protocol::gv_protocol::c18_ack_timeouts_fire` 
///
/// Check for `assertion`: "assertion failed: done(0).0 == 12"
///
/// # Warning
///
/// Concrete playback tests combined with stubs or contracts is highly
/// experimental, and subject to change.
///
/// The original harness has stubs which are not applied to this test.
/// This may cause a mismatch of non-deterministic values if the stub
/// creates any non-deterministic value.
/// The execution path may also differ, which can be used to refine the stub
/// logic.

#[test]
fn kani_concrete_playback_c18_ack_timeouts_fire_10665285325480859422() {
    let concrete_vals: Vec<Vec<u8>> = vec![
        // 2
        vec![2, 0, 0, 0],
        // 2000000000
        vec![0, 148, 53, 119],
        // 1
        vec![1, 0, 0, 0],
        // 2999999501
        vec![13, 92, 208, 178],
        // 2
        vec![2, 0, 0, 0],
        // 2000000009
        vec![9, 148, 53, 119],
    ];
    kani::concrete_playback_run(concrete_vals, c18_ack_timeouts_fire);
}
