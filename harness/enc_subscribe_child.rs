// @gv-module parent=gneiss-mqtt/src/mqtt/subscribe.rs name=gv_enc_subscribe pkg=gneiss-mqtt
//
// Child module of mqtt/subscribe.rs. C02: SUBSCRIBE on the wire vs the OASIS layout (MQTT5 3.8, MQTT 3.1.1 3.8).
use super::{write_subscribe_encoding_steps5, write_subscribe_encoding_steps311, get_subscribe_packet_user_property, get_subscribe_packet_topic_filter};
use crate::encode::{EncodingStep, EncodingContext};
use crate::alias::OutboundAliasResolution;
use crate::mqtt::{MqttPacket, ProtocolVersion, SubscribePacket, Subscription, UserProperty, QualityOfService, RetainHandlingType};
use std::collections::VecDeque;

include!("common.rs");
include!("encode_common.rs");

const F_FILTER: u8 = 1; const F_UP_NAME: u8 = 6; const F_UP_VALUE: u8 = 7;

fn field_of(step: &EncodingStep) -> (u8, usize) {
    match step {
        EncodingStep::IndexedString(g, i, _) => { if *g as usize == get_subscribe_packet_topic_filter as fn(&MqttPacket, usize) -> &str as usize { (F_FILTER, *i) } else { (0, 0) } }
        EncodingStep::UserPropertyName(g, i, _) => { if *g as usize == get_subscribe_packet_user_property as fn(&MqttPacket, usize) -> &UserProperty as usize { (F_UP_NAME, *i) } else { (0, 0) } }
        EncodingStep::UserPropertyValue(g, i, _) => { if *g as usize == get_subscribe_packet_user_property as fn(&MqttPacket, usize) -> &UserProperty as usize { (F_UP_VALUE, *i) } else { (0, 0) } }
        _ => (0, 0),
    }
}

fn any_sub(filter: &str) -> (Subscription, u8, bool, bool, u8) {
    let q: u8 = kani::any(); kani::assume(q < 3);
    let (nl, rap): (bool, bool) = (kani::any(), kani::any());
    let rh: u8 = kani::any(); kani::assume(rh < 3);
    (Subscription { topic_filter: filter.to_string(), qos: qos_of(q), no_local: nl, retain_as_published: rap,
        retain_handling_type: match rh { 0 => RetainHandlingType::SendOnSubscribe, 1 => RetainHandlingType::SendOnSubscribeIfNew, _ => RetainHandlingType::DontSend } }, q, nl, rap, rh)
}

fn subscribe_body(v5: bool, two: bool, with_sid: bool, with_prop: bool, cap: usize) { subscribe_body_len(v5, two, with_sid, with_prop, cap, 2) }

fn subscribe_body_len(v5: bool, two: bool, with_sid: bool, with_prop: bool, cap: usize, value_len: usize) {
    let pid: u16 = kani::any();
    let sid: u32 = kani::any();
    kani::assume(sid >= 1 && sid <= 268_435_455);
    let (s1, q1, nl1, rap1, rh1) = any_sub("a/b");
    let (s2, q2, nl2, rap2, rh2) = any_sub("c");
    let mut subs = vec![s1];
    if two { subs.push(s2); }
    let inner = SubscribePacket { packet_id: pid, subscriptions: subs,
        subscription_identifier: if with_sid { Some(sid) } else { None },
        user_properties: if with_prop { Some(vec![UserProperty { name: "n".to_string(), value: unsafe { String::from_utf8_unchecked(vec![b'v'; value_len]) } }]) } else { None } };
    let c = ctx(if v5 { ProtocolVersion::Mqtt5 } else { ProtocolVersion::Mqtt311 }, OutboundAliasResolution::default());
    let mut steps: VecDeque<EncodingStep> = VecDeque::with_capacity(cap);
    let r = if v5 { write_subscribe_encoding_steps5(&inner, &c, &mut steps) } else { write_subscribe_encoding_steps311(&inner, &c, &mut steps) };
    assert!(r.is_ok());
    let mut w = Layout::new();
    w.u8(0x82);
    let rl = w.hole();
    w.u16(pid);
    if v5 {
        let pl = w.hole();
        w.in_props = true;
        // MQTT5 3.8.2.1.2: Subscription Identifier (0x0B) is a Variable Byte Integer
        if with_sid { w.u8(11); w.vbi(sid); }
        if with_prop { w.u8(38); w.lp(F_UP_NAME, 0, 1); w.lp(F_UP_VALUE, 0, value_len); }
        w.in_props = false;
        let plen = w.bytes_from(pl + 1, true);
        w.fill(pl, plen);
    }
    // subscription options (3.8.3.1): bits 0-1 QoS, bit 2 No Local, bit 3 Retain As Published, bits 4-5 Retain Handling; 3.1.1: QoS only
    w.lp(F_FILTER, 0, 3);
    w.u8(if v5 { q1 | (if nl1 { 4 } else { 0 }) | (if rap1 { 8 } else { 0 }) | (rh1 << 4) } else { q1 });
    if two { w.lp(F_FILTER, 1, 1); w.u8(if v5 { q2 | (if nl2 { 4 } else { 0 }) | (if rap2 { 8 } else { 0 }) | (rh2 << 4) } else { q2 }); }
    let rlen = w.bytes_from(rl + 1, false);
    w.fill(rl, rlen);
    kani::cover!(!with_sid || sid > 16383, "subscription identifier needing three or more VBI bytes");
    check_steps(&mut steps, &w, field_of);
    std::mem::forget(r); std::mem::forget(steps); std::mem::forget(inner);
}

// @gv props=C02 tier=quick required=yes fns=write_subscribe_encoding_steps5,compute_subscribe_packet_length_properties5,compute_subscription_options_byte5
// @gv bounds="SUBSCRIBE/MQTT5 with one subscription ('a/b'), subscription identifier any value in 1..268435455, no user property; symbolic packet id and subscription options"
// @gv timeout=1200 mem=5
#[kani::proof]
#[kani::unwind(14)]
#[kani::stub(std::fmt::format, stub_format)]
fn c02_subscribe5_subid() { subscribe_body(true, false, true, false, 16) }

// @gv props=C02 tier=quick required=yes fns=write_subscribe_encoding_steps5,compute_subscribe_packet_length_properties5,compute_subscription_options_byte5
// @gv bounds="SUBSCRIBE/MQTT5 with two subscriptions and one user property, no subscription identifier; symbolic packet id and options"
// @gv timeout=1200 mem=5
#[kani::proof]
#[kani::unwind(18)]
#[kani::stub(std::fmt::format, stub_format)]
fn c02_subscribe5_two_prop() { subscribe_body(true, true, false, true, 16) }

// @gv props=C02 tier=quick required=yes fns=write_subscribe_encoding_steps311,compute_subscribe_packet_length_properties311
// @gv bounds="SUBSCRIBE/MQTT3.1.1 with two subscriptions while MQTT5-only fields (identifier, user property, no-local, retain options) are set: none of them may reach the wire"
// @gv timeout=1200 mem=5
#[kani::proof]
#[kani::unwind(12)]
#[kani::stub(std::fmt::format, stub_format)]
fn c02_subscribe311() { subscribe_body(false, true, true, true, 16) }

// @gv props=C02 tier=quick required=yes fns=write_subscribe_encoding_steps5,compute_subscribe_packet_length_properties5
// @gv bounds="SUBSCRIBE/MQTT5 with a subscription identifier (symbolic) and a user property value of 120 bytes: the user property alone takes 126 bytes of the property section, the identifier property (2..5 bytes) pushes it across the one-byte VBI boundary"
// @gv timeout=1200 mem=5
#[kani::proof]
#[kani::unwind(18)]
#[kani::stub(std::fmt::format, stub_format)]
fn c02_subscribe5_vbi_boundary() { subscribe_body_len(true, false, true, true, 16, 120) }
