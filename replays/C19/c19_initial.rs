// Concrete counterexample produced by Kani/CBMC for harness client::gv_client::c19_initial (property C19).
// Replay: ./check C19 --replay /verif/replays/C19/c19_initial.rs
// module: client_child.rs
/// Test generated for harness `client::gv_client::c19_initial` 
///
/// Check for `cover`: "base and max swapped"
///
/// # Warning
///
/// Concrete playback tests combined with stubs or contracts is highly
/// experimental, and subject to change.
///
/// The original harness has stubs which are not applied to this test.
/// This may cause a mismatch of non-deterministic values if the stub
/// creates any non-deterministic value.
/// The execution path may also differ, which can be used to refine the stub
/// logic.

#[test]
fn kani_concrete_playback_c19_initial_702064965653607343() {
    let concrete_vals: Vec<Vec<u8>> = vec![
        // 824633720833ul
        vec![1, 0, 0, 0, 192, 0, 0, 0],
        // 536870911
        vec![255, 255, 255, 31],
        // 0ul
        vec![0, 0, 0, 0, 0, 0, 0, 0],
        // 536870911
        vec![255, 255, 255, 31],
        // 1000000ul
        vec![64, 66, 15, 0, 0, 0, 0, 0],
    ];
    kani::concrete_playback_run(concrete_vals, c19_initial);
}
