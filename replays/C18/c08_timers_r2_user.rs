// Concrete counterexample produced by Kani/CBMC for harness protocol::gv_protocol::c08_timers_r2_user (property C18).
// Replay: ./check C18 --replay /verif/replays/C18/c08_timers_r2_user.rs
// module: protocol_child.rs
/// Test generated for harness `protocol::gv_protocol::c08_timers_r2_user` 
///
/// Check for `cover`: "nothing scheduled"
///
/// # Warning
///
/// Concrete playback tests combined with stubs or contracts is highly
/// experimental, and subject to change.
///
/// The original harness has stubs which are not applied to this test.
/// This may cause a mismatch of non-deterministic values if the stub
/// creates any non-deterministic value.
/// The execution path may also differ, which can be used to refine the stub
/// logic.

#[test]
fn kani_concrete_playback_c08_timers_r2_user_4016878996077740309() {
    let concrete_vals: Vec<Vec<u8>> = vec![
        // 2147483647
        vec![255, 255, 255, 127],
        // 1
        vec![1],
        // 4294967295
        vec![255, 255, 255, 255],
        // 1
        vec![1],
        // 2147483647
        vec![255, 255, 255, 127],
        // 4294967295
        vec![255, 255, 255, 255],
        // 4294967295
        vec![255, 255, 255, 255],
        // 1
        vec![1],
        // 4294967295
        vec![255, 255, 255, 255],
    ];
    kani::concrete_playback_run(concrete_vals, c08_timers_r2_user);
}

/// Test generated for harness `protocol::gv_protocol::c08_timers_r2_user` 
///
/// Check for `cover`: "second ack-timeout record is the earliest"
///
/// # Warning
///
/// Concrete playback tests combined with stubs or contracts is highly
/// experimental, and subject to change.
///
/// The original harness has stubs which are not applied to this test.
/// This may cause a mismatch of non-deterministic values if the stub
/// creates any non-deterministic value.
/// The execution path may also differ, which can be used to refine the stub
/// logic.

#[test]
fn kani_concrete_playback_c08_timers_r2_user_2860194146786940597() {
    let concrete_vals: Vec<Vec<u8>> = vec![
        // 1
        vec![1, 0, 0, 0],
        // 1
        vec![1],
        // 2
        vec![2, 0, 0, 0],
        // 1
        vec![1],
        // 3
        vec![3, 0, 0, 0],
        // 11
        vec![11, 0, 0, 0],
        // 1
        vec![1, 0, 0, 0],
        // 0
        vec![0],
        // 4294967295
        vec![255, 255, 255, 255],
    ];
    kani::concrete_playback_run(concrete_vals, c08_timers_r2_user);
}

/// Test generated for harness `protocol::gv_protocol::c08_timers_r2_user` 
///
/// Check for `assertion`: "assertion failed: got == expect_connected"
///
/// # Warning
///
/// Concrete playback tests combined with stubs or contracts is highly
/// experimental, and subject to change.
///
/// The original harness has stubs which are not applied to this test.
/// This may cause a mismatch of non-deterministic values if the stub
/// creates any non-deterministic value.
/// The execution path may also differ, which can be used to refine the stub
/// logic.

#[test]
fn kani_concrete_playback_c08_timers_r2_user_1085324894607046411() {
    let concrete_vals: Vec<Vec<u8>> = vec![
        // 2505397598
        vec![94, 85, 85, 149],
        // 1
        vec![1],
        // 1789569709
        vec![173, 170, 170, 106],
        // 0
        vec![0],
        // 3937053359
        vec![175, 170, 170, 234],
        // 3937053358
        vec![174, 170, 170, 234],
        // 1
        vec![1],
        // 4294967295
        vec![255, 255, 255, 255],
    ];
    kani::concrete_playback_run(concrete_vals, c08_timers_r2_user);
}
