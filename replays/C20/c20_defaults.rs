// Concrete counterexample produced by Kani/CBMC for harness gv_aws::c20_defaults (property C20).
// Replay: ./check C20 --replay /verif/replays/C20/c20_defaults.rs
// module: aws_child.rs
/// Test generated for harness `gv_aws::c20_defaults` 
///
/// Check for `cover`: "3.1.1 client that set neither: defaults applied"
///
/// # Warning
///
/// Concrete playback tests combined with stubs or contracts is highly
/// experimental, and subject to change.
///
/// The original harness has stubs which are not applied to this test.
/// This may cause a mismatch of non-deterministic values if the stub
/// creates any non-deterministic value.
/// The execution path may also differ, which can be used to refine the stub
/// logic.

#[test]
fn kani_concrete_playback_c20_defaults_16657382854760760894() {
    let concrete_vals: Vec<Vec<u8>> = vec![
        // 0
        vec![0],
        // 0
        vec![0],
        // 0
        vec![0],
        // 0
        vec![0],
        // 0
        vec![0, 0, 0, 0],
        // 0
        vec![0, 0, 0, 0],
        // 0
        vec![0, 0, 0, 0],
        // 0
        vec![0, 0, 0, 0],
    ];
    kani::concrete_playback_run(concrete_vals, c20_defaults);
}

/// Test generated for harness `gv_aws::c20_defaults` 
///
/// Check for `cover`: "3.1.1 client that set only the drain policy: nothing applied"
///
/// # Warning
///
/// Concrete playback tests combined with stubs or contracts is highly
/// experimental, and subject to change.
///
/// The original harness has stubs which are not applied to this test.
/// This may cause a mismatch of non-deterministic values if the stub
/// creates any non-deterministic value.
/// The execution path may also differ, which can be used to refine the stub
/// logic.

#[test]
fn kani_concrete_playback_c20_defaults_13617280155550794734() {
    let concrete_vals: Vec<Vec<u8>> = vec![
        // 0
        vec![0],
        // 253
        vec![253],
        // 0
        vec![0],
        // 255
        vec![255],
        // 4294967295
        vec![255, 255, 255, 255],
        // 4294967295
        vec![255, 255, 255, 255],
        // 4294967295
        vec![255, 255, 255, 255],
        // 4294967295
        vec![255, 255, 255, 255],
    ];
    kani::concrete_playback_run(concrete_vals, c20_defaults);
}

/// Test generated for harness `gv_aws::c20_defaults` 
///
/// Check for `assertion`: ""gv: user-set drain policy / retry limit must be kept""
///
/// # Warning
///
/// Concrete playback tests combined with stubs or contracts is highly
/// experimental, and subject to change.
///
/// The original harness has stubs which are not applied to this test.
/// This may cause a mismatch of non-deterministic values if the stub
/// creates any non-deterministic value.
/// The execution path may also differ, which can be used to refine the stub
/// logic.

#[test]
fn kani_concrete_playback_c20_defaults_16748178860812147559() {
    let concrete_vals: Vec<Vec<u8>> = vec![
        // 0
        vec![0],
        // 0
        vec![0],
        // 1
        vec![1],
        // 0
        vec![0, 0, 0, 0],
        // 0
        vec![0],
        // 0
        vec![0, 0, 0, 0],
        // 0
        vec![0, 0, 0, 0],
        // 0
        vec![0, 0, 0, 0],
        // 0
        vec![0, 0, 0, 0],
    ];
    kani::concrete_playback_run(concrete_vals, c20_defaults);
}
