// Concrete counterexample produced by Kani/CBMC for harness protocol::gv_protocol::c14_extension_other (property C14).
// Replay: ./check C14 --replay /verif/replays/C14/c14_extension_other.rs
// module: protocol_child.rs
// cover: "next ping pushed out"
#[test]
fn kani_concrete_playback_c14_extension_other_6665569776008582281() {
    let concrete_vals: Vec<Vec<u8>> = vec![
        // 184
        vec![184],
        // 1200
        vec![176, 4],
        // 1
        vec![1],
        // 4294967292
        vec![252, 255, 255, 255],
        // 1
        vec![1],
        // 4294966093
        vec![77, 251, 255, 255],
    ];
    kani::concrete_playback_run(concrete_vals, c14_extension_other);
}

// assertion: "assertion failed: st.next_ping_timepoint == expect"
#[test]
fn kani_concrete_playback_c14_extension_other_13783480889362526965() {
    let concrete_vals: Vec<Vec<u8>> = vec![
        // 184
        vec![184],
        // 1201
        vec![177, 4],
        // 1
        vec![1],
        // 4294967292
        vec![252, 255, 255, 255],
        // 1
        vec![1],
        // 4294966093
        vec![77, 251, 255, 255],
    ];
    kani::concrete_playback_run(concrete_vals, c14_extension_other);
}
