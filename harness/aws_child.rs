// @gv-module parent=gneiss-mqtt-aws/src/lib.rs name=gv_aws pkg=gneiss-mqtt-aws features=threaded-rustls
//
// Child module of gneiss-mqtt-aws/src/lib.rs. Property C20: AWS builder keeps the user's options, always has a client id,
// builds a well-formed custom-auth username, applies the 3.1.1 defaults only when the user set neither.
use super::{apply_aws_defaults, AwsClientBuilder, AwsCustomAuthOptionsBuilder, AwsCustomAuthOptions, AuthType, TlsImplementation};
use gneiss_mqtt::client::config::{ConnectOptions, MqttClientOptions, OfflineQueuePolicy, ProtocolMode, PostReconnectQueueDrainPolicy, ExponentialBackoffJitterType, TlsOptions};
use gneiss_mqtt::gv_access::{connect_view, client_view, set_connect_scalars};
use std::time::Duration;

include!("common.rs");

fn any_mode() -> ProtocolMode { if kani::any() { ProtocolMode::Mqtt5 } else { ProtocolMode::Mqtt311 } }

// @gv props=C20 tier=quick required=yes fns=apply_aws_defaults,MqttClientOptions::to_builder,MqttClientOptionsBuilder::build
// @gv bounds="every combination of protocol mode, drain policy (unset / None / OneAtATime) and retry limit (unset / any u32); symbolic offline policy, timeouts (whole seconds) and reconnect periods"
// @gv timeout=900
#[kani::proof]
#[kani::unwind(4)]
#[kani::stub(std::fmt::format, stub_format)]
fn c20_defaults() {
    let mode = any_mode();
    let drain: Option<PostReconnectQueueDrainPolicy> = match kani::any::<u8>() % 3 { 0 => None, 1 => Some(PostReconnectQueueDrainPolicy::None), _ => Some(PostReconnectQueueDrainPolicy::OneAtATime) };
    let retries: Option<u32> = if kani::any() { Some(kani::any()) } else { None };
    let policy = match kani::any::<u8>() % 4 { 0 => OfflineQueuePolicy::PreserveAll, 1 => OfflineQueuePolicy::PreserveAcknowledged, 2 => OfflineQueuePolicy::PreserveQos1PlusPublishes, _ => OfflineQueuePolicy::PreserveNothing };
    let (ct, pt, b, m) = (Duration::from_secs(kani::any::<u32>() as u64), Duration::from_secs(kani::any::<u32>() as u64), Duration::from_secs(kani::any::<u32>() as u64), Duration::from_secs(kani::any::<u32>() as u64));
    let mut bld = MqttClientOptions::builder();
    bld.with_protocol_mode(mode).with_offline_queue_policy(policy).with_connect_timeout(ct).with_ping_timeout(pt)
        .with_base_reconnect_period(b).with_max_reconnect_period(m).with_reconnect_period_jitter(ExponentialBackoffJitterType::None);
    if let Some(d) = drain { bld.with_post_reconnect_queue_drain_policy(d); }
    if let Some(r) = retries { bld.with_max_interrupted_retries(r); }
    let user = bld.build();
    let before = client_view(&user);
    let out = apply_aws_defaults(user);
    let v = client_view(&out);
    let defaults_apply = mode == ProtocolMode::Mqtt311 && drain.is_none() && retries.is_none();
    kani::cover!(defaults_apply, "3.1.1 client that set neither: defaults applied");
    kani::cover!(mode == ProtocolMode::Mqtt311 && drain.is_some() && retries.is_none(), "3.1.1 client that set only the drain policy: nothing applied");
    // the one-at-a-time drain policy and the retry limit of 2 only for MQTT 3.1.1 clients whose user set NEITHER
    if defaults_apply { assert!(v.drain == Some(PostReconnectQueueDrainPolicy::OneAtATime) && v.retries == Some(2)); }
    else { assert!(v.drain == drain && v.retries == retries, "gv: user-set drain policy / retry limit must be kept"); }
    // every other client option preserved
    assert!(v.protocol_mode == mode && v.offline_queue_policy == policy && v.connect_timeout == ct && v.ping_timeout == pt);
    assert!(v.base_reconnect == before.base_reconnect && v.max_reconnect == before.max_reconnect && v.stability == before.stability && v.has_resolver_factory == before.has_resolver_factory);
    std::mem::forget(out);
}

fn stub_uuid() -> uuid::Uuid { uuid::Uuid::from_bytes(kani::any()) }
fn stub_uuid_to_string(_u: &uuid::Uuid) -> String { "01234567-89ab-cdef-0123-456789abcdef".to_string() }

fn mk_builder(custom: Option<AwsCustomAuthOptions>) -> AwsClientBuilder {
    AwsClientBuilder {
        auth_type: if custom.is_some() { AuthType::CustomAuth } else { AuthType::Mtls },
        custom_auth_options: custom,
        connect_options: None,
        client_options: None,
        tls_options_builder: TlsOptions::builder(),
        threaded_options: None,
        endpoint: "e".to_string(),
        tls_impl: TlsImplementation::Default,
    }
}

fn client_id_body(user_has_id: bool, custom_auth: bool) {
    let mut o = ConnectOptions::builder().build();
    let (ka, se, rm, tam, mps): (Option<u16>, Option<u32>, Option<u16>, Option<u16>, Option<u32>) =
        (if kani::any() { Some(kani::any()) } else { None }, if kani::any() { Some(kani::any()) } else { None }, if kani::any() { Some(kani::any()) } else { None },
         if kani::any() { Some(kani::any()) } else { None }, if kani::any() { Some(kani::any()) } else { None });
    set_connect_scalars(&mut o, ka, se, rm, tam, mps);
    if user_has_id {
        let mut b = ConnectOptions::builder_from_existing(o);
        b.with_client_id("mine");
        o = b.build();
    }
    let custom = if custom_auth { Some(AwsCustomAuthOptions { username: "u?x=1".to_string(), password: Some(vec![1u8, 2]) }) } else { None };
    let builder = mk_builder(custom);
    let out = builder.build_final_connect_options(o);
    let v = connect_view(&out);
    // always a non-empty client id: the user's if supplied, else a generated one
    match v.client_id { Some(id) => { assert!(!id.is_empty()); if user_has_id { assert!(id.as_bytes() == b"mine", "gv: the user's client id must be kept"); } } None => { assert!(false, "gv: a client id must always be present"); } }
    // every other connect option preserved
    assert!(v.keep_alive == ka && v.session_expiry == se && v.receive_maximum == rm && v.topic_alias_maximum == tam && v.maximum_packet_size == mps, "gv: user connect options must be preserved");
    assert!(!v.has_will && v.user_property_count == 0 && v.will_delay.is_none());
    if custom_auth {
        assert!(v.username.as_ref().map(|s| s.as_bytes() == b"u?x=1").unwrap_or(false) && v.password.as_ref().map(|p| p.len() == 2 && p[0] == 1 && p[1] == 2).unwrap_or(false));
    } else {
        assert!(v.username.is_none() && v.password.is_none());
    }
    std::mem::forget(out); std::mem::forget(builder);
}

// @gv props=C20 tier=quick required=yes fns=AwsClientBuilder::build_final_connect_options
// @gv bounds="user supplied NO client id; scalar connect options symbolic (present/absent); no custom auth"
// @gv stubs="uuid::Uuid::new_v4 -> any 128-bit value; <Uuid as ToString>::to_string -> fixed 36-byte text"
// @gv timeout=1200 mem=6
#[kani::proof]
#[kani::unwind(40)]
#[kani::stub(std::fmt::format, stub_format)]
#[kani::stub(uuid::Uuid::new_v4, stub_uuid)]
fn c20_client_id_generated() { client_id_body(false, false) }

// @gv props=C20 tier=quick required=yes fns=AwsClientBuilder::build_final_connect_options
// @gv bounds="user supplied the client id 'mine'; scalar connect options symbolic; custom-auth username/password present"
// @gv stubs="uuid::Uuid::new_v4 -> any 128-bit value"
// @gv timeout=1200 mem=6
#[kani::proof]
#[kani::unwind(40)]
#[kani::stub(std::fmt::format, stub_format)]
#[kani::stub(uuid::Uuid::new_v4, stub_uuid)]
fn c20_client_id_kept() { client_id_body(true, true) }

/// percent-decodes once (oracle for the query string)
fn pct_decode(s: &[u8], out: &mut [u8; 16]) -> usize {
    let mut n = 0; let mut i = 0;
    while i < s.len() {
        if s[i] == b'%' && i + 2 < s.len() + 0 && i + 2 <= s.len() - 1 + 0 {
            let h = |c: u8| -> u8 { if c >= b'0' && c <= b'9' { c - b'0' } else if c >= b'A' && c <= b'F' { c - b'A' + 10 } else if c >= b'a' && c <= b'f' { c - b'a' + 10 } else { 0 } };
            out[n] = h(s[i + 1]) * 16 + h(s[i + 2]); n += 1; i += 3;
        } else { out[n] = s[i]; n += 1; i += 1; }
    }
    n
}

// @gv props=C20 tier=thorough required=no fns=AwsCustomAuthOptionsBuilder::build,AwsCustomAuthOptionsBuilder::build_query_params
// @gv bounds="signed custom auth: authorizer 'az', signature of 2 symbolic bytes over {a, +, /, =}, token key 'k' value 'v', username 'u'; real format!/write! (no fmt stub)"
// @gv timeout=2400 mem=16
#[kani::proof]
#[kani::unwind(24)]
fn c20_query_signature_encoded_once() {
    let pick = |x: u8| -> u8 { match x % 4 { 0 => b'a', 1 => b'+', 2 => b'/', _ => b'=' } };
    let sig = [pick(kani::any()), pick(kani::any())];
    let sig_s = unsafe { String::from_utf8_unchecked(sig.to_vec()) };
    let mut b = AwsCustomAuthOptionsBuilder::new_signed(Some("az"), &sig_s, "k", "v");
    b.with_username("u");
    let o = b.build();
    let u = o.username.as_bytes();
    // u?x-amz-customauthorizer-name=az&x-amz-customauthorizer-signature=<enc>&k=v
    let prefix = b"u?x-amz-customauthorizer-name=az&x-amz-customauthorizer-signature=";
    assert!(u.len() > prefix.len());
    let mut i = 0; while i < prefix.len() { assert!(u[i] == prefix[i]); i += 1; }
    let tail = b"&k=v";
    let enc = &u[prefix.len()..u.len() - tail.len()];
    let mut i = 0; while i < tail.len() { assert!(u[u.len() - tail.len() + i] == tail[i]); i += 1; }
    let mut dec = [0u8; 16];
    let n = pct_decode(enc, &mut dec);
    assert!(n == 2 && dec[0] == sig[0] && dec[1] == sig[1], "gv: the signature must percent-decode (once) to the configured value");
    let mut i = 0; while i < enc.len() { assert!(enc[i] != b'+' && enc[i] != b'/' && enc[i] != b'=' && enc[i] != b'&', "gv: reserved characters must be percent-encoded"); i += 1; }
    std::mem::forget(o); std::mem::forget(b);
}
