// Concrete counterexample produced by Kani/CBMC for harness decode::gv_decode::c03_frame_rl_k3_r0 (property C03).
// Replay: ./check C03 --replay /verif/replays/C03/c03_frame_rl_k3_r0.rs
// module: decode_child.rs
/// Test generated for harness `decode::gv_decode::c03_frame_rl_k3_r0` 
///
/// Check for `cover`: "announced size above the maximum"
///
/// # Warning
///
/// Concrete playback tests combined with stubs or contracts is highly
/// experimental, and subject to change.
///
/// The original harness has stubs which are not applied to this test.
/// This may cause a mismatch of non-deterministic values if the stub
/// creates any non-deterministic value.
/// The execution path may also differ, which can be used to refine the stub
/// logic.

#[test]
fn kani_concrete_playback_c03_frame_rl_k3_r0_3690452242506929183() {
    let concrete_vals: Vec<Vec<u8>> = vec![
        // 128
        vec![128],
        // 128
        vec![128],
        // 128
        vec![128],
        // 0
        vec![0],
        // 0
        vec![0],
        // 4
        vec![4, 0, 0, 0],
        // 0
        vec![0],
    ];
    kani::concrete_playback_run(concrete_vals, c03_frame_rl_k3_r0);
}

/// Test generated for harness `decode::gv_decode::c03_frame_rl_k3_r0` 
///
/// Check for `cover`: "announced size exactly at the maximum"
///
/// # Warning
///
/// Concrete playback tests combined with stubs or contracts is highly
/// experimental, and subject to change.
///
/// The original harness has stubs which are not applied to this test.
/// This may cause a mismatch of non-deterministic values if the stub
/// creates any non-deterministic value.
/// The execution path may also differ, which can be used to refine the stub
/// logic.

#[test]
fn kani_concrete_playback_c03_frame_rl_k3_r0_15991078628037148108() {
    let concrete_vals: Vec<Vec<u8>> = vec![
        // 250
        vec![250],
        // 255
        vec![255],
        // 187
        vec![187],
        // 124
        vec![124],
        // 255
        vec![255],
        // 261029887
        vec![255, 255, 142, 15],
        // 255
        vec![255],
    ];
    kani::concrete_playback_run(concrete_vals, c03_frame_rl_k3_r0);
}

/// Test generated for harness `decode::gv_decode::c03_frame_rl_k3_r0` 
///
/// Check for `assertion`: ""gv: a fourth continuation byte in the remaining length must be an error for every chunking""
///
/// # Warning
///
/// Concrete playback tests combined with stubs or contracts is highly
/// experimental, and subject to change.
///
/// The original harness has stubs which are not applied to this test.
/// This may cause a mismatch of non-deterministic values if the stub
/// creates any non-deterministic value.
/// The execution path may also differ, which can be used to refine the stub
/// logic.

#[test]
fn kani_concrete_playback_c03_frame_rl_k3_r0_395742247949420867() {
    let concrete_vals: Vec<Vec<u8>> = vec![
        // 255
        vec![255],
        // 255
        vec![255],
        // 255
        vec![255],
        // 191
        vec![191],
        // 255
        vec![255],
        // 0
        vec![0, 0, 0, 0],
        // 255
        vec![255],
    ];
    kani::concrete_playback_run(concrete_vals, c03_frame_rl_k3_r0);
}
