// Concrete counterexample produced by Kani/CBMC for harness client::gv_client::c12_transition_pendingreconnect_retry (property C12).
// Replay: ./check C12 --replay /verif/replays/C12/c12_transition_pendingreconnect_retry.rs
// module: client_child.rs
// assertion: ""gv: a new connection attempt must forget the previous connection's CONNACK, error and DISCONNECT""
#[test]
fn kani_concrete_playback_c12_transition_pendingreconnect_retry_10667982626175326039() {
    let concrete_vals: Vec<Vec<u8>> = vec![
        // 1
        vec![1],
        // 18446744073709551615ul
        vec![255, 255, 255, 255, 255, 255, 255, 255],
        // 536870911
        vec![255, 255, 255, 31],
        // 9223372036854775807ul
        vec![255, 255, 255, 255, 255, 255, 255, 127],
        // 536870911
        vec![255, 255, 255, 31],
        // 18446744073709551615ul
        vec![255, 255, 255, 255, 255, 255, 255, 255],
        // 536870911
        vec![255, 255, 255, 31],
        // 4294967295
        vec![255, 255, 255, 255],
        // 65535
        vec![255, 255],
    ];
    kani::concrete_playback_run(concrete_vals, c12_transition_pendingreconnect_retry);
}
