// Concrete counterexample produced by Kani/CBMC for harness client::gv_client::c19_step_nojitter (property C19).
// Replay: ./check C19 --replay /verif/replays/C19/c19_step_nojitter.rs
// module: client_child.rs
/// Test generated for harness `client::gv_client::c19_step_nojitter` 
///
/// Check for `assertion`: "This is a placeholder message; Kani doesn't support message formatted at runtime"
///
/// # Warning
///
/// Concrete playback tests combined with stubs or contracts is highly
/// experimental, and subject to change.
///
/// The original harness has stubs which are not applied to this test.
/// This may cause a mismatch of non-deterministic values if the stub
/// creates any non-deterministic value.
/// The execution path may also differ, which can be used to refine the stub
/// logic.

#[test]
fn kani_concrete_playback_c19_step_nojitter_2454095157216947357() {
    let concrete_vals: Vec<Vec<u8>> = vec![
        // 1513210019728856028ul
        vec![220, 19, 128, 224, 126, 0, 0, 21],
        // 999999999
        vec![255, 201, 154, 59],
        // 13835058055215054841ul
        vec![249, 255, 255, 251, 255, 255, 255, 191],
        // 999292422
        vec![6, 254, 143, 59],
        // 18446744073709551615ul
        vec![255, 255, 255, 255, 255, 255, 255, 255],
        // 865782271
        vec![255, 201, 154, 51],
        // 13835058053134680063ul
        vec![255, 255, 255, 127, 255, 255, 255, 191],
        // 902652931
        vec![3, 100, 205, 53],
    ];
    kani::concrete_playback_run(concrete_vals, c19_step_nojitter);
}
