// @gv-module parent=gneiss-mqtt/src/alias.rs name=gv_alias pkg=gneiss-mqtt
//
// Child module of alias.rs. Property C17: topic aliases never make either side reconstruct a wrong topic.
use super::{ManualOutboundAliasResolver, LruOutboundAliasResolver, NullOutboundAliasResolver, OutboundAliasResolver, InboundAliasResolver, OutboundAliasResolution};

include!("common.rs");

/// three topics of EQUAL length (a symbolic choice among strings of different length produced a spurious counterexample in the probes)
fn topic_of(sel: u8) -> &'static str { match sel { 0 => "t/a", 1 => "t/b", _ => "t/c" } }

/// What a conforming server does with a PUBLISH carrying (topic-or-empty, alias): its alias table, indexed by alias (1..=3)
struct Server { bound: [u8; 4] }   // 0 = unbound, else topic selector + 1
impl Server {
    fn new() -> Server { Server { bound: [0; 4] } }
    /// returns the topic selector the server reconstructs, or 255 if it cannot (protocol error on the server side)
    fn receive(&mut self, res: &OutboundAliasResolution, sel: u8, max: u16) -> u8 {
        match res.alias {
            None => { if res.skip_topic { 255 } else { sel } }
            Some(a) => {
                if a == 0 || a > max || a > 3 { return 255; }
                if res.skip_topic { let b = self.bound[a as usize]; if b == 0 { 255 } else { b - 1 } }
                else { self.bound[a as usize] = sel + 1; sel }
            }
        }
    }
}

fn outbound_sequence<R: OutboundAliasResolver>(r: &mut R, max: u16, steps: usize, manual: bool) {
    let mut server = Server::new();
    let mut i = 0;
    while i < steps {
        let sel: u8 = kani::any();
        kani::assume(sel < 3);
        let wish: Option<u16> = if manual { if kani::any() { Some(kani::any::<u16>() % 5) } else { None } } else { None };
        let res = r.resolve_and_apply_topic_alias(&wish, topic_of(sel));
        if let Some(a) = res.alias { assert!(a >= 1 && a <= max, "gv: an alias of 0 or above the server's Topic Alias Maximum must never be sent"); }
        if max == 0 { assert!(res.alias.is_none() && !res.skip_topic, "gv: with a maximum of 0 no alias is used"); }
        let got = server.receive(&res, sel, max);
        assert!(got == sel, "gv: the server must reconstruct exactly the topic the application supplied");
        i += 1;
    }
}

// @gv props=C17 tier=quick required=yes fns=ManualOutboundAliasResolver::resolve_and_apply_topic_alias,ManualOutboundAliasResolver::resolve_topic_alias,ManualOutboundAliasResolver::reset_for_new_connection
// @gv bounds="manual resolver: server maximum symbolic 0..3, three publishes with symbolic topic (of three) and symbolic alias wish (none / 0..4), checked against a model of the server's alias table"
// @gv timeout=1200 mem=6
#[kani::proof]
#[kani::unwind(8)]
#[kani::stub(std::fmt::format, stub_format)]
fn c17_manual_sequence() {
    let mut r = ManualOutboundAliasResolver::new();
    let max: u16 = kani::any();
    kani::assume(max <= 3);
    r.reset_for_new_connection(max);
    outbound_sequence(&mut r, max, 3, true);
    std::mem::forget(r);
}

// @gv props=C17 tier=quick required=yes fns=ManualOutboundAliasResolver::reset_for_new_connection,ManualOutboundAliasResolver::resolve_and_apply_topic_alias
// @gv bounds="manual resolver across a reconnect: one publish binds an alias, reset with a symbolic new maximum, the same publish again must carry its topic"
// @gv timeout=900
#[kani::proof]
#[kani::unwind(8)]
#[kani::stub(std::fmt::format, stub_format)]
fn c17_manual_reset() {
    let mut r = ManualOutboundAliasResolver::new();
    r.reset_for_new_connection(3);
    let a: u16 = kani::any();
    let first = r.resolve_and_apply_topic_alias(&Some(a), "t/a");
    let max2: u16 = kani::any();
    kani::assume(max2 <= 3);
    r.reset_for_new_connection(max2);
    let again = r.resolve_and_apply_topic_alias(&Some(a), "t/a");
    kani::cover!(first.alias.is_some(), "alias bound on the first connection");
    assert!(!again.skip_topic, "gv: alias bindings never survive a reconnect");
    if let Some(x) = again.alias { assert!(x >= 1 && x <= max2); }
    std::mem::forget(r);
}

// @gv props=C17 tier=quick required=yes fns=NullOutboundAliasResolver::resolve_and_apply_topic_alias
// @gv bounds="null resolver: any server maximum, any alias wish"
#[kani::proof]
#[kani::unwind(4)]
fn c17_null() {
    let mut r = NullOutboundAliasResolver::new();
    r.reset_for_new_connection(kani::any());
    let wish: Option<u16> = if kani::any() { Some(kani::any()) } else { None };
    let res = r.resolve_and_apply_topic_alias(&wish, "t/a");
    assert!(res.alias.is_none() && !res.skip_topic);
}

fn lru_body(configured: u16, steps: usize) {
    let mut r = LruOutboundAliasResolver::new(configured);
    let server_max: u16 = kani::any();
    kani::assume(server_max <= 3);
    r.reset_for_new_connection(server_max);
    let eff = if configured < server_max { configured } else { server_max };
    kani::cover!(configured <= 1 || (server_max < configured && server_max > 0), "server grants fewer aliases than the resolver is configured for");
    outbound_sequence(&mut r, eff, steps, false);
    std::mem::forget(r);
}

// @gv props=C17 tier=quick required=yes fns=LruOutboundAliasResolver::resolve_and_apply_topic_alias,LruOutboundAliasResolver::resolve_topic_alias,LruOutboundAliasResolver::reset_for_new_connection
// @gv bounds="LRU resolver configured for 3 aliases, server maximum symbolic 0..3, four publishes with symbolic topics (of three): every eviction/re-announcement pattern of that length; lru::LruCache replaced by its contract model"
// @gv timeout=1500 mem=6
#[kani::proof]
#[kani::unwind(8)]
#[kani::stub(std::fmt::format, stub_format)]
fn c17_lru_conf3_steps4() { lru_body(3, 4) }

// @gv props=C17 tier=quick required=yes fns=LruOutboundAliasResolver::resolve_and_apply_topic_alias,LruOutboundAliasResolver::resolve_topic_alias
// @gv bounds="LRU resolver configured for 1 alias, server maximum symbolic 0..3, four publishes with symbolic topics"
// @gv timeout=1500 mem=6
#[kani::proof]
#[kani::unwind(8)]
#[kani::stub(std::fmt::format, stub_format)]
fn c17_lru_conf1_steps4() { lru_body(1, 4) }

// @gv props=C17 tier=thorough required=no fns=LruOutboundAliasResolver::resolve_and_apply_topic_alias
// @gv bounds="LRU resolver configured for 2 aliases, server maximum symbolic 0..3, five publishes"
// @gv timeout=2400 mem=16
#[kani::proof]
#[kani::unwind(8)]
#[kani::stub(std::fmt::format, stub_format)]
fn c17_lru_conf2_steps5() { lru_body(2, 5) }

// @gv props=C17,C11 tier=quick required=yes fns=InboundAliasResolver::resolve_topic_alias,InboundAliasResolver::reset_for_new_connection
// @gv bounds="inbound resolver with symbolic maximum 0..3: two inbound publishes with symbolic alias (none / 0..4) and topic (one of three, or empty), then a reconnect and a third publish"
// @gv timeout=1200 mem=6
#[kani::proof]
#[kani::unwind(8)]
#[kani::stub(std::fmt::format, stub_format)]
fn c17_inbound_sequence() {
    let max: u16 = kani::any();
    kani::assume(max <= 3);
    let mut r = InboundAliasResolver::new(max);
    let mut bound: [u8; 5] = [0; 5];     // specification model: alias -> topic selector + 1
    let mut i = 0;
    while i < 3 {
        if i == 2 { r.reset_for_new_connection(); bound = [0; 5]; }
        let alias: Option<u16> = if kani::any() { Some(kani::any::<u16>() % 5) } else { None };
        let sel: u8 = kani::any();
        kani::assume(sel < 4);                       // 3 = empty topic
        let mut topic = if sel == 3 { String::new() } else { topic_of(sel).to_string() };
        let res = r.resolve_topic_alias(&alias, &mut topic);
        match alias {
            None => { assert!(res.is_ok()); }       // (an empty topic without alias is rejected later by inbound validation)
            Some(a) => {
                if sel == 3 {
                    // alias only: surfaced with the topic most recently bound to that alias on THIS connection, else the connection fails
                    let b = bound[a as usize];
                    if b == 0 { assert!(res.is_err(), "gv: an unknown alias must fail the connection instead of surfacing an empty topic"); }
                    else { assert!(res.is_ok()); assert!(topic.as_bytes() == topic_of(b - 1).as_bytes(), "gv: inbound alias resolves to the topic most recently bound to it"); }
                } else if a == 0 || a > max {
                    assert!(res.is_err(), "gv: a zero or out-of-range inbound alias must fail the connection");
                } else {
                    assert!(res.is_ok());
                    bound[a as usize] = sel + 1;
                    assert!(topic.as_bytes() == topic_of(sel).as_bytes());
                }
            }
        }
        std::mem::forget(res);
        std::mem::forget(topic);
        i += 1;
    }
    std::mem::forget(r);
}


// @gv props=C17 tier=quick required=yes fns=LruOutboundAliasResolver::resolve_topic_alias
// @gv bounds="ONE resolution step from an arbitrary reachable cache state: configured maximum and server maximum any u16, cache holding L entries (any L up to the effective maximum; only the least recently used entry, with any legal alias, is materialised), a topic that is not cached"
// @gv timeout=600 mem=4
#[kani::proof]
#[kani::unwind(6)]
#[kani::stub(std::fmt::format, stub_format)]
fn c17_lru_step_alias_in_range_any_size() {
    let configured: u16 = kani::any();
    kani::assume(configured >= 1);
    let mut r = LruOutboundAliasResolver::new(configured);
    let server_max: u16 = kani::any();
    r.reset_for_new_connection(server_max);
    let eff = if configured < server_max { configured } else { server_max };
    let len: usize = kani::any();
    // invariant of the resolver: the cache never holds more than the effective maximum, and every cached alias is legal
    kani::assume(len <= eff as usize);
    if len >= 1 {
        let a0: u16 = kani::any();
        kani::assume(a0 >= 1 && a0 <= eff);
        r.cache.push("lru".to_string(), a0);
        r.cache.gv_set_ghost(len - 1);
    }
    let res = r.resolve_topic_alias(&None, "new");
    kani::cover!(len == eff as usize && eff > 0, "cache full: an alias is recycled");
    kani::cover!(eff == 65535 && len == 65535, "largest legal alias table, full");
    match res.alias {
        None => assert!(eff == 0, "gv: aliases are used whenever the server allows them"),
        Some(a) => {
            assert!(a != 0, "gv: topic alias 0 is never sent");
            assert!(a <= eff, "gv: no alias above the server's Topic Alias Maximum is ever sent");
            assert!(!res.skip_topic, "gv: a topic that is not bound on this connection is sent in full");
        }
    }
    std::mem::forget(r);
}
