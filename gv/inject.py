"""Scratch copy of /repo and injection of the harness modules.

Nothing here ever writes to /repo: the working tree is rsync'ed to a scratch
directory and only that copy is edited. Every edit carries an "exactly N
matches" requirement; if the source changed so that an edit no longer applies
the run is INCONCLUSIVE (InjectError), never a pass.
"""
import os
import re
import shutil
import subprocess

VERIF = os.path.dirname(os.path.dirname(os.path.abspath(__file__)))
HARNESS_DIR = os.path.join(VERIF, "harness")
REPO = os.environ.get("GV_REPO", "/repo")

# where the harness sources live inside the scratch copy (per package)
SCRATCH_HARNESS_SUBDIR = "gv_harness"


class InjectError(Exception):
    pass


def scratch_root():
    return os.environ.get("GV_SCRATCH_BASE") or os.environ.get("TMPDIR") or "/tmp"


def make_scratch(tag):
    d = os.path.join(scratch_root(), "gv-%s-%d" % (tag, os.getpid()))
    if os.path.exists(d):
        shutil.rmtree(d, ignore_errors=True)
    os.makedirs(d)
    dst = os.path.join(d, "repo")
    r = subprocess.run(
        ["rsync", "-a", "--exclude", "/target", "--exclude", "/.git", REPO + "/", dst + "/"],
        stdout=subprocess.PIPE, stderr=subprocess.STDOUT)
    if r.returncode != 0:
        raise InjectError("rsync failed: " + r.stdout.decode(errors="replace"))
    return d, dst


def _read(p):
    with open(p, "r", encoding="utf-8") as f:
        return f.read()


def _write(p, s):
    with open(p, "w", encoding="utf-8") as f:
        f.write(s)


def _replace_exact(path, old, new, count):
    s = _read(path)
    n = s.count(old)
    if n != count:
        raise InjectError("%s: expected %d occurrence(s) of %r, found %d" % (path, count, old, n))
    _write(path, s.replace(old, new))


def _append(path, text):
    if not os.path.isfile(path):
        raise InjectError("missing source file %s" % path)
    s = _read(path)
    if not s.endswith("\n"):
        s += "\n"
    _write(path, s + text)


MODULE_RE = re.compile(r"^//\s*@gv-module\s+(.*)$", re.M)


def harness_files():
    """All harness files with a @gv-module header -> dict(file -> attrs)."""
    out = {}
    for fn in sorted(os.listdir(HARNESS_DIR)):
        if not fn.endswith(".rs"):
            continue
        p = os.path.join(HARNESS_DIR, fn)
        m = MODULE_RE.search(_read(p))
        if not m:
            continue
        attrs = dict(kv.split("=", 1) for kv in m.group(1).split())
        attrs["path"] = p
        attrs["file"] = fn
        attrs.setdefault("features", "")
        out[fn] = attrs
    return out


def module_path(attrs):
    """Rust path of the injected module, e.g. client::gv_client."""
    parent = attrs["parent"]
    pkg = attrs["pkg"]
    rel = parent[len(pkg) + len("/src/"):]
    rel = rel[:-3]  # .rs
    parts = [p for p in rel.split("/")]
    if parts[-1] in ("mod", "lib"):
        parts = parts[:-1]
    return "::".join(parts + [attrs["name"]])


def scratch_harness_path(repo_copy, attrs):
    return os.path.join(repo_copy, SCRATCH_HARNESS_SUBDIR, attrs["file"])


def inject(repo_copy, cfg="kani", with_harnesses=True):
    """Apply all edits to the scratch copy. cfg is the cfg name guarding them
    (kani for verification; gv_models for the model self-test)."""
    g = lambda rel: os.path.join(repo_copy, rel)
    guard = "#[cfg(%s)]" % cfg

    hdir = os.path.join(repo_copy, SCRATCH_HARNESS_SUBDIR)
    os.makedirs(hdir, exist_ok=True)
    for fn in os.listdir(HARNESS_DIR):
        if fn.endswith(".rs"):
            shutil.copy(os.path.join(HARNESS_DIR, fn), os.path.join(hdir, fn))

    # 1. container models as a crate module
    _append(g("gneiss-mqtt/src/lib.rs"),
            '\n%s\n#[path = "%s"]\npub(crate) mod kani_models;\n' % (guard, os.path.join(hdir, "kani_models.rs")))
    #    read-only accessors for configuration structs (used by the gneiss-mqtt-aws harnesses)
    _append(g("gneiss-mqtt/src/lib.rs"),
            '\n%s\n#[path = "%s"]\npub mod gv_access;\n' % (guard, os.path.join(hdir, "gv_access.rs")))
    #    protocol.rs: an explicit `use` shadows the `use std::collections::*` glob
    _append(g("gneiss-mqtt/src/protocol.rs"),
            "\n%s\nuse crate::kani_models::{HashMap, HashSet, hash_map};\n" % guard)
    #    alias.rs: switch the two explicit imports
    _replace_exact(g("gneiss-mqtt/src/alias.rs"),
                   "use std::collections::HashMap;\n",
                   "#[cfg(not(%s))]\nuse std::collections::HashMap;\n%s\nuse crate::kani_models::HashMap;\n" % (cfg, guard), 1)
    _replace_exact(g("gneiss-mqtt/src/alias.rs"),
                   "use lru::LruCache;\n",
                   "#[cfg(not(%s))]\nuse lru::LruCache;\n%s\nuse crate::kani_models::LruCache;\n" % (cfg, guard), 1)
    # 2. Kani 0.68 ICEs on an empty panic message; behaviour is unchanged
    _replace_exact(g("gneiss-mqtt/src/protocol.rs"), 'panic!("");', 'panic!("gv: empty panic message");', 1)

    # 3. harness modules as children of the real files (appended: line numbers of real code unchanged)
    if with_harnesses:
        for fn, a in harness_files().items():
            parent = g(a["parent"])
            _append(parent, '\n%s\n#[path = "%s"]\nmod %s;\n' % (guard, os.path.join(hdir, fn), a["name"]))
    return True
