// Verification model of std::collections::{HashMap, HashSet}: association list, insertion order.
use std::borrow::Borrow;

pub(crate) struct HashMap<K, V> { items: Vec<(K, V)> }

pub(crate) mod hash_map {
    pub(crate) enum Entry<'a, K, V> { Occupied(OccupiedEntry<'a, K, V>), Vacant(VacantEntry<'a, K, V>) }
    pub(crate) struct OccupiedEntry<'a, K, V> { pub(crate) map: &'a mut super::HashMap<K, V>, pub(crate) index: usize }
    pub(crate) struct VacantEntry<'a, K, V> { pub(crate) map: &'a mut super::HashMap<K, V>, pub(crate) key: K }
    impl<'a, K, V> VacantEntry<'a, K, V> {
        pub(crate) fn insert(self, value: V) -> &'a mut V {
            self.map.items.push((self.key, value));
            let n = self.map.items.len();
            &mut self.map.items[n - 1].1
        }
    }
}

impl<K: Eq, V> HashMap<K, V> {
    pub(crate) fn new() -> Self { HashMap { items: Vec::new() } }
    fn find<Q: ?Sized + Eq>(&self, k: &Q) -> Option<usize> where K: Borrow<Q> {
        let mut i = 0;
        while i < self.items.len() {
            if self.items[i].0.borrow() == k { return Some(i); }
            i += 1;
        }
        None
    }
    pub(crate) fn insert(&mut self, k: K, v: V) -> Option<V> {
        if let Some(i) = self.find(&k) {
            Some(std::mem::replace(&mut self.items[i].1, v))
        } else {
            self.items.push((k, v));
            None
        }
    }
    pub(crate) fn get<Q: ?Sized + Eq>(&self, k: &Q) -> Option<&V> where K: Borrow<Q> { self.find(k).map(|i| &self.items[i].1) }
    pub(crate) fn get_mut<Q: ?Sized + Eq>(&mut self, k: &Q) -> Option<&mut V> where K: Borrow<Q> {
        match self.find(k) { Some(i) => Some(&mut self.items[i].1), None => None }
    }
    pub(crate) fn contains_key<Q: ?Sized + Eq>(&self, k: &Q) -> bool where K: Borrow<Q> { self.find(k).is_some() }
    pub(crate) fn remove<Q: ?Sized + Eq>(&mut self, k: &Q) -> Option<V> where K: Borrow<Q> {
        match self.find(k) { Some(i) => Some(self.items.remove(i).1), None => None }
    }
    pub(crate) fn len(&self) -> usize { self.items.len() }
    pub(crate) fn is_empty(&self) -> bool { self.items.is_empty() }
    pub(crate) fn clear(&mut self) { self.items.clear() }
    pub(crate) fn keys(&self) -> impl Iterator<Item = &K> { self.items.iter().map(|kv| &kv.0) }
    pub(crate) fn values(&self) -> impl Iterator<Item = &V> { self.items.iter().map(|kv| &kv.1) }
    pub(crate) fn iter(&self) -> impl Iterator<Item = (&K, &V)> { self.items.iter().map(|kv| (&kv.0, &kv.1)) }
    pub(crate) fn entry(&mut self, k: K) -> hash_map::Entry<'_, K, V> {
        match self.find(&k) {
            Some(index) => hash_map::Entry::Occupied(hash_map::OccupiedEntry { map: self, index }),
            None => hash_map::Entry::Vacant(hash_map::VacantEntry { map: self, key: k }),
        }
    }
}

impl<K, V> IntoIterator for HashMap<K, V> {
    type Item = (K, V);
    type IntoIter = std::vec::IntoIter<(K, V)>;
    fn into_iter(self) -> Self::IntoIter { self.items.into_iter() }
}

pub(crate) struct HashSet<K> { items: Vec<K> }
impl<K: Eq> HashSet<K> {
    pub(crate) fn new() -> Self { HashSet { items: Vec::new() } }
    pub(crate) fn contains(&self, k: &K) -> bool { self.items.iter().any(|x| x == k) }
    pub(crate) fn insert(&mut self, k: K) -> bool { if self.contains(&k) { false } else { self.items.push(k); true } }
    pub(crate) fn remove(&mut self, k: &K) -> bool {
        let mut i = 0;
        while i < self.items.len() { if &self.items[i] == k { self.items.remove(i); return true; } i += 1; }
        false
    }
    pub(crate) fn clear(&mut self) { self.items.clear() }
    pub(crate) fn len(&self) -> usize { self.items.len() }
}
impl<K: std::fmt::Debug> std::fmt::Debug for HashSet<K> {
    fn fmt(&self, f: &mut std::fmt::Formatter<'_>) -> std::fmt::Result { self.items.fmt(f) }
}

impl<K: Eq> HashSet<K> {
    pub(crate) fn is_empty(&self) -> bool { self.items.is_empty() }
    pub(crate) fn iter(&self) -> impl Iterator<Item = &K> { self.items.iter() }
}

// Verification model of lru::LruCache (API subset used by alias.rs): vector ordered from
// least recently used (front) to most recently used (back); documented lru 0.12 contract.
pub(crate) struct LruCache<K, V> { cap: usize, items: Vec<(K, V)> }

impl<K: Eq, V> LruCache<K, V> {
    pub(crate) fn new(cap: std::num::NonZeroUsize) -> Self { LruCache { cap: cap.get(), items: Vec::new() } }
    fn find<Q: ?Sized + Eq>(&self, k: &Q) -> Option<usize> where K: Borrow<Q> {
        let mut i = 0;
        while i < self.items.len() {
            if self.items[i].0.borrow() == k { return Some(i); }
            i += 1;
        }
        None
    }
    pub(crate) fn len(&self) -> usize { self.items.len() }
    pub(crate) fn clear(&mut self) { self.items.clear() }
    pub(crate) fn peek<Q: ?Sized + Eq>(&self, k: &Q) -> Option<&V> where K: Borrow<Q> { self.find(k).map(|i| &self.items[i].1) }
    pub(crate) fn peek_lru(&self) -> Option<(&K, &V)> { self.items.first().map(|kv| (&kv.0, &kv.1)) }
    pub(crate) fn promote<Q: ?Sized + Eq>(&mut self, k: &Q) where K: Borrow<Q> {
        if let Some(i) = self.find(k) { let e = self.items.remove(i); self.items.push(e); }
    }
    pub(crate) fn pop_lru(&mut self) -> Option<(K, V)> { if self.items.is_empty() { None } else { Some(self.items.remove(0)) } }
    pub(crate) fn push(&mut self, k: K, v: V) -> Option<(K, V)> {
        if let Some(i) = self.find(&k) {
            let old = self.items.remove(i);
            self.items.push((k, v));
            return Some(old);
        }
        let evicted = if self.items.len() >= self.cap { Some(self.items.remove(0)) } else { None };
        self.items.push((k, v));
        evicted
    }
}
