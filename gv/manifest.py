#!/usr/bin/env python3
"""Regenerates /verif/MANIFEST.json from the table below (python3 gv/manifest.py)."""
import json
import os
import sys

VERIF = os.path.dirname(os.path.dirname(os.path.abspath(__file__)))
sys.path.insert(0, VERIF)

TECH = "bounded symbolic execution of the real Rust functions with Kani 0.68 / CBMC 6.11 (SAT, CaDiCaL) from kani::any() inputs; native replay of counterexamples"
TRUST = ("Trusted: rustc MIR -> Kani GOTO translation, CBMC, CaDiCaL, association-list models of HashMap/HashSet/LruCache, "
         "the stubs listed in the evidence, oracle transcriptions of the OASIS tables. Every claim is bounded as listed per harness in the evidence. ")

# property -> (claimed?, level text, note (Out line), design ref, extra technique)
CLAIMED = {
    "C19": ("For every base/max/stability Duration and both jitter modes the solver decides: normalize() yields the swapped/raised pair; one "
            "back-off step from any period in [base,max] returns the current period (or, under rand's contract, a value at most that) and stores "
            "min(2*period, max) without panicking; the first two waits after MqttClientImpl::new are the normalized base and its clamped double. "
            "Two SMT lemmas lift the one-step relation to the closed form min(base*2^k, max).",
            "Outside the claim: the reset-after-stability rule (three lines in transition_to_state, which drives the engine entry points); the inside of "
            "compute_uniform_jitter_period (replaced by rand's documented gen_range contract).",
            "5 C19", TECH + "; z3+cvc5 for two arithmetic composition lemmas"),
}

NOT_APPLICABLE = {
    "C01": "exactly-once resolution lives in the completion paths (complete_operation_as_*, ack handlers, reset) and in multi-event histories; "
           "one symbolic step through any of them exhausts 62 GB under Kani/CBMC (measured, DESIGN.md section 3), so solver-based checking of the real code cannot decide it here",
    "C12": "about the tokio/threaded event loops and transition_to_state driving the engine entry points and Arc<dyn Fn> listeners; Kani models neither "
           "tasks/threads nor those entry points within memory; only the pure transition-decision table is reachable, which does not decide the property",
}

PENDING_REASON = "check not built yet in this revision of /verif (designed in DESIGN.md section 5; harnesses are being added property by property)"


def main():
    props = [json.loads(l)["id"] for l in open(os.path.join(VERIF, "properties.jsonl")) if l.strip()]
    checks = []
    na = []
    for p in props:
        if p in CLAIMED:
            text, note, ref, tech = CLAIMED[p]
            checks.append({
                "property_id": p,
                "quick_cmd": "./check %s --tier quick" % p,
                "thorough_cmd": "./check %s --tier thorough" % p,
                "evidence_file": "/verif/evidence/%s.json" % p,
                "replay_cmd_template": "./check %s --replay {path}" % p,
                "engine": "kani-cbmc",
                "level_claimed": {"category": "model_checking", "text": text, "design_ref": "DESIGN.md section " + ref},
                "level_note": TRUST + note,
                "technique": tech,
            })
        elif p in NOT_APPLICABLE:
            na.append({"property_id": p, "reason": NOT_APPLICABLE[p]})
        else:
            na.append({"property_id": p, "reason": PENDING_REASON})
    m = {
        "version": 1,
        "setup_cmd": "./setup.sh",
        "hooks": {
            "guard": "cfg(kani)",
            "enable": "no source hooks: every check rsyncs /repo's working tree to a scratch directory, appends `#[cfg(kani)] #[path=..] mod gv_*;` "
                      "child modules (harness/*.rs) to the copies of the real source files and runs cargo kani there; cfg(kani) is only ever set by the Kani compiler",
            "baseline_off_cmd": "cd /repo && cargo nextest run --workspace --no-fail-fast --tool-config-file pb:/w/lib/nextest.toml --profile pb --test-threads 8 --offline || cargo test --workspace --no-fail-fast --offline",
            "source_commits": [],
            "add_only": True,
        },
        "engines": [
            {"name": "kani-cbmc", "path": "/verif/gv", "serves_properties": sorted(CLAIMED.keys()),
             "kind_free_text": "Kani 0.68 proof harnesses (harness/*.rs) compiled together with the real crate sources; CBMC 6.11 bounded model checking, CaDiCaL"},
            {"name": "smt-lemmas", "path": "/verif/gv/smt.py", "serves_properties": ["C14", "C19"],
             "kind_free_text": "z3 4.8.12 and cvc5 1.0 must both answer unsat on the negated arithmetic composition lemmas"},
        ],
        "checks": checks,
        "not_applicable": na,
        "notes": "Exit status 2 (no VIOLATION line) means inconclusive: a required harness reached no verdict, a cover witness was not satisfied, an unwinding "
                 "assertion failed, the injection no longer applies, or a counterexample did not reproduce natively. Repaired defects are listed in known_findings.json under 'fixed'.",
    }
    with open(os.path.join(VERIF, "MANIFEST.json"), "w") as f:
        json.dump(m, f, indent=1)
    print("MANIFEST.json: %d checks, %d not applicable" % (len(checks), len(na)))


if __name__ == "__main__":
    main()
