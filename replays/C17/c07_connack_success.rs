// Concrete counterexample produced by Kani/CBMC for harness protocol::gv_protocol::c07_connack_success (property C17).
// Replay: ./check C17 --replay /verif/replays/C17/c07_connack_success.rs
// module: protocol_child.rs
// assertion: ""gv: every new connection starts with an empty outbound alias table limited by the server's Topic Alias Maximum""
#[test]
fn kani_concrete_playback_c07_connack_success_5495411485686633974() {
    let concrete_vals: Vec<Vec<u8>> = vec![
        // 1
        vec![1],
        // 1
        vec![1],
        // 1
        vec![1],
        // 1
        vec![1],
        // 65535
        vec![255, 255],
        // 1
        vec![1],
        // 65535
        vec![255, 255],
        // 1
        vec![1],
        // 65535
        vec![255, 255],
        // 4294967295
        vec![255, 255, 255, 255],
    ];
    kani::concrete_playback_run(concrete_vals, c07_connack_success);
}
