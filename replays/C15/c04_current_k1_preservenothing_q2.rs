// Concrete counterexample produced by Kani/CBMC for harness protocol::gv_protocol::c04_current_k1_preservenothing_q2 (property C15).
// Replay: ./check C15 --replay /verif/replays/C15/c04_current_k1_preservenothing_q2.rs
// module: protocol_child.rs
/// Test generated for harness `protocol::gv_protocol::c04_current_k1_preservenothing_q2` 
///
/// Check for `assertion`: ""gv: an interrupted retransmission goes back to the front of the retransmission queue""
///
/// # Warning
///
/// Concrete playback tests combined with stubs or contracts is highly
/// experimental, and subject to change.
///
/// The original harness has stubs which are not applied to this test.
/// This may cause a mismatch of non-deterministic values if the stub
/// creates any non-deterministic value.
/// The execution path may also differ, which can be used to refine the stub
/// logic.

#[test]
fn kani_concrete_playback_c04_current_k1_preservenothing_q2_1402675279471183363() {
    let concrete_vals: Vec<Vec<u8>> = vec![
        // 32768
        vec![0, 128],
    ];
    kani::concrete_playback_run(concrete_vals, c04_current_k1_preservenothing_q2);
}
