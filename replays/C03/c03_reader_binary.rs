// Concrete counterexample produced by Kani/CBMC for harness decode::gv_decode::c03_reader_binary (property C03).
// Replay: ./check C03 --replay /verif/replays/C03/c03_reader_binary.rs
// module: decode_child.rs
// assertion: "This is a placeholder message; Kani doesn't support message formatted at runtime"
#[test]
fn kani_concrete_playback_c03_reader_binary_5292333221879817675() {
    let concrete_vals: Vec<Vec<u8>> = vec![
        // 0
        vec![0],
        // 1
        vec![1],
        // 255
        vec![255],
        // 247
        vec![247],
        // 247
        vec![247],
        // 1
        vec![1],
        // 2ul
        vec![2, 0, 0, 0, 0, 0, 0, 0],
        // 0
        vec![0],
    ];
    kani::concrete_playback_run(concrete_vals, c03_reader_binary);
}

// cover: "declared length overstates the remaining bytes by one"
#[test]
fn kani_concrete_playback_c03_reader_binary_9058794859324552595() {
    let concrete_vals: Vec<Vec<u8>> = vec![
        // 0
        vec![0],
        // 5
        vec![5],
        // 255
        vec![255],
        // 255
        vec![255],
        // 255
        vec![255],
        // 5
        vec![5],
        // 6ul
        vec![6, 0, 0, 0, 0, 0, 0, 0],
        // 1
        vec![1],
    ];
    kani::concrete_playback_run(concrete_vals, c03_reader_binary);
}

// cover: "whole remainder consumed"
#[test]
fn kani_concrete_playback_c03_reader_binary_13016589319457286706() {
    let concrete_vals: Vec<Vec<u8>> = vec![
        // 0
        vec![0],
        // 4
        vec![4],
        // 1
        vec![1],
        // 1
        vec![1],
        // 0
        vec![0],
        // 4
        vec![4],
        // 6ul
        vec![6, 0, 0, 0, 0, 0, 0, 0],
        // 0
        vec![0],
    ];
    kani::concrete_playback_run(concrete_vals, c03_reader_binary);
}
