use super::{Decoder, DecodingContext};
use crate::error::{GneissError, GneissResult};
use crate::mqtt::{MqttPacket, ProtocolVersion, PingrespPacket};
use std::collections::VecDeque;

fn stub_format(_args: std::fmt::Arguments<'_>) -> String { String::new() }

// recorder: frames handed to the body decoder
static mut FRAMES: [(u8, usize, u8); 8] = [(0, 0, 0); 8];
static mut NFRAMES: usize = 0;

fn stub_decode_packet(first_byte: u8, packet_body: &[u8], _v: ProtocolVersion) -> GneissResult<Box<MqttPacket>> {
    let mut sum: u8 = 0;
    let mut i = 0;
    while i < packet_body.len() { sum = sum.wrapping_mul(31).wrapping_add(packet_body[i]); i += 1; }
    unsafe { if NFRAMES < 8 { FRAMES[NFRAMES] = (first_byte, packet_body.len(), sum); NFRAMES += 1; } }
    if packet_body.len() > 0 && packet_body[0] == 0xFF {
        return Err(GneissError::new_decoding_failure("stub body error"));
    }
    Ok(Box::new(MqttPacket::Pingresp(PingrespPacket {})))
}

fn run(chunks: &[&[u8]], max: u32) -> (bool, usize, [(u8, usize, u8); 8]) {
    unsafe { NFRAMES = 0; FRAMES = [(0, 0, 0); 8]; }
    let mut d = Decoder::new();
    let mut q: VecDeque<Box<MqttPacket>> = VecDeque::new();
    let mut ok = true;
    let mut k = 0;
    while k < chunks.len() {
        if ok {
            let mut c = DecodingContext { maximum_packet_size: max, protocol_version: ProtocolVersion::Mqtt5, decoded_packets: &mut q };
            let r = d.decode_bytes(chunks[k], &mut c);
            ok = r.is_ok();
            std::mem::forget(r);
        }
        k += 1;
    }
    std::mem::forget(d); std::mem::forget(q);
    unsafe { (ok, NFRAMES, FRAMES) }
}

#[kani::proof]
#[kani::unwind(8)]
#[kani::stub(std::fmt::format, stub_format)]
#[kani::stub(crate::decode::decode_packet, stub_decode_packet)]
fn probed_framing_chunking() {
    let bytes: [u8; 5] = kani::any();
    let split: usize = kani::any();
    kani::assume(split <= 5);
    let max: u32 = kani::any();
    kani::assume(max <= 8);
    let (ok1, n1, f1) = run(&[&bytes], max);
    let (ok2, n2, f2) = run(&[&bytes[..split], &bytes[split..]], max);
    assert!(ok1 == ok2);
    assert!(n1 == n2);
    let mut i = 0;
    while i < 8 { assert!(f1[i] == f2[i]); i += 1; }
    kani::cover!(n1 == 2, "two frames in five bytes");
    kani::cover!(!ok1, "error verdict");
}

#[kani::proof]
#[kani::unwind(8)]
#[kani::stub(std::fmt::format, stub_format)]
#[kani::stub(crate::decode::decode_packet, stub_decode_packet)]
fn probed_framing_chunking_split2_of4() {
    let bytes: [u8; 4] = kani::any();
    let max: u32 = kani::any();
    kani::assume(max <= 8);
    let (ok1, n1, f1) = run(&[&bytes], max);
    let (ok2, n2, f2) = run(&[&bytes[..2], &bytes[2..]], max);
    assert!(ok1 == ok2);
    assert!(n1 == n2);
    let mut i = 0;
    while i < 8 { assert!(f1[i] == f2[i]); i += 1; }
    kani::cover!(n1 == 2, "two frames in four bytes");
    kani::cover!(!ok1, "error verdict");
}

use super::DecoderState;

fn mk_decoder(st: u8, first: u8, rem: usize, scratch: &[u8]) -> Decoder {
    let mut v: Vec<u8> = Vec::with_capacity(16);
    v.extend_from_slice(scratch);
    match st {
        0 => Decoder { state: DecoderState::ReadPacketType, scratch: v, first_byte: None, remaining_length: None },
        1 => Decoder { state: DecoderState::ReadTotalRemainingLength, scratch: v, first_byte: Some(first), remaining_length: None },
        _ => Decoder { state: DecoderState::ReadPacketBody, scratch: v, first_byte: Some(first), remaining_length: Some(rem) },
    }
}

fn feed(d: &mut Decoder, chunks: &[&[u8]], max: u32) -> (bool, usize) {
    unsafe { NFRAMES = 0; FRAMES = [(0, 0, 0); 8]; }
    let mut q: VecDeque<Box<MqttPacket>> = VecDeque::new();
    let mut ok = true;
    let mut k = 0;
    while k < chunks.len() {
        if ok {
            let mut c = DecodingContext { maximum_packet_size: max, protocol_version: ProtocolVersion::Mqtt5, decoded_packets: &mut q };
            let r = d.decode_bytes(chunks[k], &mut c);
            ok = r.is_ok();
            std::mem::forget(r);
        }
        k += 1;
    }
    let n = q.len();
    std::mem::forget(q);
    (ok, n)
}

// split lemma: from an arbitrary (small) decoder state, two bytes at once == one byte then one byte
#[kani::proof]
#[kani::unwind(6)]
#[kani::stub(std::fmt::format, stub_format)]
#[kani::stub(crate::decode::decode_packet, stub_decode_packet)]
fn probed_framing_split_lemma() {
    let st: u8 = kani::any(); kani::assume(st < 3);
    let first: u8 = kani::any();
    let sc: [u8; 3] = kani::any();
    let sl: usize = kani::any(); kani::assume(sl <= 3);
    let rem: usize = kani::any(); kani::assume(rem <= 4);
    // representation invariant of the decoder
    if st == 0 { kani::assume(sl == 0); }
    if st == 1 { kani::assume(sl <= 3); let mut i = 0; while i < sl { kani::assume(sc[i] & 0x80 != 0); i += 1; } }
    if st == 2 { kani::assume(sl < rem || (sl == 0 && rem == 0)); }
    let ab: [u8; 2] = kani::any();
    let max: u32 = kani::any(); kani::assume(max <= 8);
    let mut d1 = mk_decoder(st, first, rem, &sc[..sl]);
    let (ok1, n1) = feed(&mut d1, &[&ab], max);
    let f1 = unsafe { FRAMES }; let k1 = unsafe { NFRAMES };
    let mut d2 = mk_decoder(st, first, rem, &sc[..sl]);
    let (ok2, n2) = feed(&mut d2, &[&ab[..1], &ab[1..]], max);
    let f2 = unsafe { FRAMES }; let k2 = unsafe { NFRAMES };
    assert!(ok1 == ok2 && n1 == n2 && k1 == k2);
    let mut i = 0;
    while i < 8 { assert!(f1[i] == f2[i]); i += 1; }
    // same successor state
    assert!(d1.state == d2.state && d1.first_byte == d2.first_byte && d1.remaining_length == d2.remaining_length);
    assert!(d1.scratch.len() == d2.scratch.len());
    kani::cover!(k1 == 1, "a frame completed");
    std::mem::forget(d1); std::mem::forget(d2);
}

#[kani::proof]
#[kani::unwind(6)]
#[kani::stub(std::fmt::format, stub_format)]
#[kani::stub(crate::decode::decode_packet, stub_decode_packet)]
fn probed_framing_concrete_pingresp() {
    let bytes: [u8; 2] = [0xD0, 0x00];
    let mut d = Decoder::new();
    let (ok, n) = feed(&mut d, &[&bytes], 0);
    assert!(ok && n == 1);
    std::mem::forget(d);
}

use super::DecoderDirective;

#[kani::proof]
#[kani::unwind(6)]
#[kani::stub(std::fmt::format, stub_format)]
fn probed_remaining_length_step() {
    let first: u8 = kani::any();
    let sc: [u8; 3] = kani::any();
    let sl: usize = kani::any(); kani::assume(sl <= 3);
    let mut i = 0; while i < sl { kani::assume(sc[i] & 0x80 != 0); i += 1; }
    let mut d = mk_decoder(1, first, 0, &sc[..sl]);
    let input: [u8; 2] = kani::any();
    let max: u32 = kani::any(); kani::assume(max <= 300);
    let mut q: VecDeque<Box<MqttPacket>> = VecDeque::new();
    let c = DecodingContext { maximum_packet_size: max, protocol_version: ProtocolVersion::Mqtt5, decoded_packets: &mut q };
    let (dir, rest) = d.process_read_total_remaining_length(&input, &c);
    assert!(rest.len() == 1);                                    // consumes exactly one byte
    let b = input[0];
    let more = b & 0x80 != 0;
    match &dir {
        DecoderDirective::Continue => {
            if !more {
                // length complete: value by the spec formula, size check passed, scratch cleared
                let mut v: u32 = 0; let mut k = 0;
                while k < sl { v |= ((sc[k] & 0x7f) as u32) << (7 * k as u32); k += 1; }
                v |= ((b & 0x7f) as u32) << (7 * sl as u32);
                assert!(d.remaining_length == Some(v as usize));
                assert!(d.scratch.len() == 0);
                let eff = if max == 0 { 268_435_455u32 } else { max };
                assert!(v + 1 + (sl as u32 + 1) <= eff);
            } else {
                assert!(sl < 3 && d.scratch.len() == sl + 1);
            }
        }
        DecoderDirective::OutOfData => { assert!(false); }       // one more input byte remains
        DecoderDirective::TerminalError(_) => {
            if more { assert!(sl == 3); }
            kani::cover!(!more, "rejected for size at header time");
            assert!(d.remaining_length.is_none());               // nothing of the body buffered
        }
    }
    std::mem::forget(dir); std::mem::forget(d); std::mem::forget(q);
}

#[kani::proof]
#[kani::unwind(2)]
#[kani::stub(std::fmt::format, stub_format)]
fn probed_drop_error_u2() {
    let e = GneissError::new_decoding_failure("x");
    if kani::any() { drop(e); } else { std::mem::forget(e); }
}

#[kani::proof]
#[kani::unwind(6)]
#[kani::stub(std::fmt::format, stub_format)]
fn probed_drop_error_u6() {
    let e = GneissError::new_decoding_failure("x");
    if kani::any() { drop(e); } else { std::mem::forget(e); }
}

#[kani::proof]
#[kani::unwind(6)]
#[kani::stub(std::fmt::format, stub_format)]
#[kani::stub(crate::decode::decode_packet, stub_decode_packet)]
fn probed_framing_concrete_pingresp_small_scratch() {
    let bytes: [u8; 2] = [0xD0, 0x00];
    let mut d = mk_decoder(0, 0, 0, &[]);
    let (ok, n) = feed(&mut d, &[&bytes], 0);
    assert!(ok && n == 1);
    std::mem::forget(d);
}
