// @gv-module parent=gneiss-mqtt/src/encode.rs name=gv_encode pkg=gneiss-mqtt
//
// Child module of encode.rs. Property C02 (outbound packets are spec-conformant and faithful; fragmentation independent).
// Oracles are written from the OASIS MQTT 5.0 / 3.1.1 packet layouts, not from the crate's codec.
use super::{encode_vli, compute_variable_length_integer_encode_size, process_byte_slice_encoding, process_encoding_step,
    EncodingStep, EncodingContext, Encoder, EncodeResult};
use crate::alias::OutboundAliasResolution;
use crate::mqtt::{MqttPacket, ProtocolVersion, PublishPacket, PubackPacket, PubrecPacket, PubrelPacket, PubcompPacket, SubscribePacket,
    UnsubscribePacket, DisconnectPacket, ConnectPacket, PingreqPacket, Subscription, UserProperty, QualityOfService,
    PubackReasonCode, PubrecReasonCode, PubrelReasonCode, PubcompReasonCode, DisconnectReasonCode, RetainHandlingType, PayloadFormatIndicator};
use std::collections::VecDeque;

include!("common.rs");

include!("encode_common.rs");

// ------------------------------------------------------------------------------------------------
// H1 variable byte integers
// ------------------------------------------------------------------------------------------------

// @gv props=C02,C11 tier=quick required=yes fns=encode_vli,compute_variable_length_integer_encode_size
// @gv bounds="every u32 value for encode_vli; every usize for the size function"
#[kani::proof]
#[kani::unwind(6)]
#[kani::stub(std::fmt::format, stub_format)]
fn c02_vli() {
    let v: u32 = kani::any();
    let mut dest: Vec<u8> = Vec::with_capacity(8);
    let r = encode_vli(v, &mut dest);
    let mut o = Sink::new();
    if v <= 268_435_455 { o.vbi(v); }
    kani::cover!(v == 268_435_455, "largest encodable value");
    kani::cover!(v == 16384, "three-byte boundary");
    assert!(r.is_ok() == (v <= 268_435_455));
    if r.is_ok() {
        assert!(dest.len() == o.n);
        let mut i = 0;
        while i < 4 { if i < o.n { assert!(dest[i] == o.b[i]); } i += 1; }
    } else {
        assert!(dest.is_empty());
    }
    let n: usize = kani::any();
    let s = compute_variable_length_integer_encode_size(n);
    assert!(s.is_ok() == (n <= 268_435_455));
    if let Ok(k) = &s { assert!(*k == vbi_len(n)); if n == v as usize && r.is_ok() { assert!(*k == dest.len()); } }
    std::mem::forget(r); std::mem::forget(s); std::mem::forget(dest);
}

// ------------------------------------------------------------------------------------------------
// H2 the resumable slice step (fragmentation independence)
// ------------------------------------------------------------------------------------------------

// @gv props=C02,C11 tier=quick required=yes fns=process_byte_slice_encoding
// @gv bounds="field of symbolic length 0..8 with symbolic content, resume offset 0..len, destination with capacity 8 and symbolic fill 0..8"
#[kani::proof]
#[kani::unwind(10)]
fn c02_slice_step() {
    let data: [u8; 8] = kani::any();
    let len: usize = kani::any();
    kani::assume(len <= 8);
    let offset: usize = kani::any();
    kani::assume(offset <= len);
    let fill: usize = kani::any();
    kani::assume(fill <= 8);
    let mut dest: Vec<u8> = Vec::with_capacity(8);
    let mut i = 0;
    while i < fill { dest.push(0xEE); i += 1; }
    let cap0 = dest.capacity();
    let r = process_byte_slice_encoding(&data[..len], offset, &mut dest);
    let space = 8 - fill;
    let remaining = len - offset;
    let take = if space < remaining { space } else { remaining };
    kani::cover!(take < remaining && take > 0, "field split across buffers");
    kani::cover!(take == remaining && remaining > 0, "field finished");
    // appends exactly the next `take` bytes, never grows the buffer, reports the resume offset (0 = finished)
    assert!(dest.capacity() == cap0);
    assert!(dest.len() == fill + take);
    let mut i = 0;
    while i < 8 { if i < take { assert!(dest[fill + i] == data[offset + i]); } i += 1; }
    assert!(r == if take < remaining { offset + take } else { 0 });
    std::mem::forget(dest);
}

// ------------------------------------------------------------------------------------------------
// H3b what one step emits (real process_encoding_step, step variant known)
// ------------------------------------------------------------------------------------------------

fn get_topic_for_test(p: &MqttPacket) -> &str { match p { MqttPacket::Publish(x) => &x.topic, _ => panic!("gv") } }
fn get_payload_for_test(p: &MqttPacket) -> &[u8] { match p { MqttPacket::Publish(x) => x.payload.as_ref().unwrap(), _ => panic!("gv") } }
fn get_filter_for_test(p: &MqttPacket, i: usize) -> &str { match p { MqttPacket::Unsubscribe(x) => &x.topic_filters[i], _ => panic!("gv") } }
fn get_prop_for_test(p: &MqttPacket, i: usize) -> &UserProperty { match p { MqttPacket::Publish(x) => &x.user_properties.as_ref().unwrap()[i], _ => panic!("gv") } }

// @gv props=C02 tier=quick required=yes fns=process_encoding_step
// @gv bounds="the four fixed-width step kinds (Uint8/Uint16/Uint32/Vli) with symbolic values, destination capacity 8 with symbolic fill 0..4"
#[kani::proof]
#[kani::unwind(6)]
#[kani::stub(std::fmt::format, stub_format)]
fn c02_step_integral() {
    let packet = MqttPacket::Pingreq(PingreqPacket {});
    let mut steps: VecDeque<EncodingStep> = VecDeque::new();
    let fill: usize = kani::any();
    kani::assume(fill <= 4);
    let mut dest: Vec<u8> = Vec::with_capacity(8);
    let mut i = 0;
    while i < fill { dest.push(0xEE); i += 1; }
    let kind: u8 = kani::any();
    kani::assume(kind < 4);
    let v: u32 = kani::any();
    let mut o = Sink::new();
    let r = match kind {
        0 => { o.u8(v as u8); process_encoding_step(&mut steps, EncodingStep::Uint8(v as u8), &packet, &mut dest) }
        1 => { o.u16(v as u16); process_encoding_step(&mut steps, EncodingStep::Uint16(v as u16), &packet, &mut dest) }
        2 => { o.u32(v); process_encoding_step(&mut steps, EncodingStep::Uint32(v), &packet, &mut dest) }
        _ => { kani::assume(v <= 268_435_455); o.vbi(v); process_encoding_step(&mut steps, EncodingStep::Vli(v), &packet, &mut dest) }
    };
    assert!(r.is_ok());
    assert!(dest.len() == fill + o.n && o.n <= 4 && dest.capacity() == 8 && steps.is_empty());
    let mut i = 0;
    while i < 4 { if i < o.n { assert!(dest[fill + i] == o.b[i]); } i += 1; }
    std::mem::forget(r); std::mem::forget(dest); std::mem::forget(steps);
}

// @gv props=C02 tier=quick required=yes fns=process_encoding_step,process_byte_slice_encoding
// @gv bounds="the StringSlice and BytesSlice step kinds over a 5-byte field with symbolic content, symbolic resume offset 0..5, destination capacity 8 with symbolic fill 0..4 (the encoder's guard): the unfinished remainder is re-queued at the FRONT with the right offset"
#[kani::proof]
#[kani::unwind(10)]
#[kani::stub(std::fmt::format, stub_format)]
fn c02_step_slices() {
    let data: [u8; 5] = kani::any();
    kani::assume(data[0] < 0x80 && data[1] < 0x80 && data[2] < 0x80 && data[3] < 0x80 && data[4] < 0x80);
    let packet = MqttPacket::Publish(PublishPacket { topic: s_of(&data), payload: Some(data.to_vec()), ..Default::default() });
    let mut steps: VecDeque<EncodingStep> = VecDeque::new();
    steps.push_back(EncodingStep::Uint8(0x55)); // something already queued behind
    let offset: usize = kani::any();
    kani::assume(offset <= 5);
    let fill: usize = kani::any();
    kani::assume(fill <= 4); // Encoder::encode only processes a step while at least 4 bytes are free
    let mut dest: Vec<u8> = Vec::with_capacity(8);
    let mut i = 0;
    while i < fill { dest.push(0xEE); i += 1; }
    let string_kind: bool = kani::any();
    let r = if string_kind { process_encoding_step(&mut steps, EncodingStep::StringSlice(get_topic_for_test, offset), &packet, &mut dest) }
            else { process_encoding_step(&mut steps, EncodingStep::BytesSlice(get_payload_for_test, offset), &packet, &mut dest) };
    assert!(r.is_ok());
    let space = 8 - fill;
    let remaining = 5 - offset;
    let take = if space < remaining { space } else { remaining };
    assert!(dest.len() == fill + take && dest.capacity() == 8);
    let mut i = 0;
    while i < 5 { if i < take { assert!(dest[fill + i] == data[offset + i]); } i += 1; }
    // (the real code uses the resume offset 0 as "finished", so a split that has written nothing yet -- possible only
    //  with a full buffer, which Encoder::encode's `len + 4 <= capacity` guard excludes -- is not distinguishable)
    if take < remaining && offset + take > 0 {
        assert!(steps.len() == 2);
        match steps.front().unwrap() {
            EncodingStep::StringSlice(_, o2) => assert!(string_kind && *o2 == offset + take),
            EncodingStep::BytesSlice(_, o2) => assert!(!string_kind && *o2 == offset + take),
            _ => assert!(false),
        }
    } else if take == remaining {
        assert!(steps.len() == 1);
    }
    std::mem::forget(r); std::mem::forget(dest); std::mem::forget(steps); std::mem::forget(packet);
}

// ------------------------------------------------------------------------------------------------
// H3 acknowledgements and PINGREQ generated by the client (no slice steps involved)
// ------------------------------------------------------------------------------------------------

fn no_field(_s: &EncodingStep) -> (u8, usize) { (0, 0) }

/// kind: 0 PUBACK, 1 PUBREC, 2 PUBREL, 3 PUBCOMP; form: 0 = MQTT 3.1.1, 1 = MQTT5 success (short form), 2 = MQTT5 failing reason code without properties
fn ack_body(kind: u8, form: u8) {
    let pid: u16 = kani::any();
    let c = ctx(if form == 0 { ProtocolVersion::Mqtt311 } else { ProtocolVersion::Mqtt5 }, OutboundAliasResolution::default());
    let mut steps: VecDeque<EncodingStep> = VecDeque::with_capacity(8);
    let fail = form == 2;
    let (r, first, code) = match kind {
        0 => { let p = PubackPacket { packet_id: pid, reason_code: if fail { PubackReasonCode::NotAuthorized } else { PubackReasonCode::Success }, ..Default::default() };
               (if form == 0 { crate::mqtt::puback::write_puback_encoding_steps311(&p, &c, &mut steps) } else { crate::mqtt::puback::write_puback_encoding_steps5(&p, &c, &mut steps) }, 0x40u8, 0x87u8) }
        1 => { let p = PubrecPacket { packet_id: pid, reason_code: if fail { PubrecReasonCode::QuotaExceeded } else { PubrecReasonCode::Success }, ..Default::default() };
               (if form == 0 { crate::mqtt::pubrec::write_pubrec_encoding_steps311(&p, &c, &mut steps) } else { crate::mqtt::pubrec::write_pubrec_encoding_steps5(&p, &c, &mut steps) }, 0x50, 0x97) }
        2 => { let p = PubrelPacket { packet_id: pid, reason_code: if fail { PubrelReasonCode::PacketIdentifierNotFound } else { PubrelReasonCode::Success }, ..Default::default() };
               (if form == 0 { crate::mqtt::pubrel::write_pubrel_encoding_steps311(&p, &c, &mut steps) } else { crate::mqtt::pubrel::write_pubrel_encoding_steps5(&p, &c, &mut steps) }, 0x62, 0x92) }
        _ => { let p = PubcompPacket { packet_id: pid, reason_code: if fail { PubcompReasonCode::PacketIdentifierNotFound } else { PubcompReasonCode::Success }, ..Default::default() };
               (if form == 0 { crate::mqtt::pubcomp::write_pubcomp_encoding_steps311(&p, &c, &mut steps) } else { crate::mqtt::pubcomp::write_pubcomp_encoding_steps5(&p, &c, &mut steps) }, 0x70, 0x92) }
    };
    assert!(r.is_ok());
    // MQTT5 3.4-3.7: type nibble (+ flags 0010 for PUBREL), remaining length, packet id, [reason code]; reason code 0 may be omitted (remaining length 2)
    let mut w = Layout::new();
    w.u8(first);
    if form == 0 { w.u8(2); } else { w.vbi(if fail { 3 } else { 2 }); }
    w.u16(pid);
    if fail { w.u8(code); }
    check_steps(&mut steps, &w, no_field);
    std::mem::forget(r); std::mem::forget(steps);
}

// @gv props=C02,C05 tier=quick required=yes fns=write_puback_encoding_steps311
// @gv bounds="PUBACK generated by the client, MQTT 3.1.1 (fixed four bytes); symbolic packet id"
#[kani::proof]
#[kani::unwind(8)]
#[kani::stub(std::fmt::format, stub_format)]
fn c02_puback311() { ack_body(0, 0) }

// @gv props=C02,C05 tier=quick required=yes fns=write_puback_encoding_steps5
// @gv bounds="PUBACK generated by the client, MQTT5 success (short form, remaining length 2); symbolic packet id"
#[kani::proof]
#[kani::unwind(8)]
#[kani::stub(std::fmt::format, stub_format)]
fn c02_puback5_success() { ack_body(0, 1) }

// @gv props=C02,C05 tier=quick required=yes fns=write_puback_encoding_steps5
// @gv bounds="PUBACK generated by the client, MQTT5 failing reason code without properties (remaining length 3); symbolic packet id"
#[kani::proof]
#[kani::unwind(8)]
#[kani::stub(std::fmt::format, stub_format)]
fn c02_puback5_failing() { ack_body(0, 2) }

// @gv props=C02,C05 tier=quick required=yes fns=write_pubrec_encoding_steps311
// @gv bounds="PUBREC generated by the client, MQTT 3.1.1 (fixed four bytes); symbolic packet id"
#[kani::proof]
#[kani::unwind(8)]
#[kani::stub(std::fmt::format, stub_format)]
fn c02_pubrec311() { ack_body(1, 0) }

// @gv props=C02,C05 tier=quick required=yes fns=write_pubrec_encoding_steps5
// @gv bounds="PUBREC generated by the client, MQTT5 success (short form, remaining length 2); symbolic packet id"
#[kani::proof]
#[kani::unwind(8)]
#[kani::stub(std::fmt::format, stub_format)]
fn c02_pubrec5_success() { ack_body(1, 1) }

// @gv props=C02,C05 tier=thorough required=no fns=write_pubrec_encoding_steps5
// @gv bounds="PUBREC generated by the client, MQTT5 failing reason code without properties (remaining length 3); symbolic packet id"
#[kani::proof]
#[kani::unwind(8)]
#[kani::stub(std::fmt::format, stub_format)]
fn c02_pubrec5_failing() { ack_body(1, 2) }

// @gv props=C02,C05 tier=quick required=yes fns=write_pubrel_encoding_steps311
// @gv bounds="PUBREL generated by the client, MQTT 3.1.1 (fixed four bytes); symbolic packet id"
#[kani::proof]
#[kani::unwind(8)]
#[kani::stub(std::fmt::format, stub_format)]
fn c02_pubrel311() { ack_body(2, 0) }

// @gv props=C02,C05 tier=quick required=yes fns=write_pubrel_encoding_steps5
// @gv bounds="PUBREL generated by the client, MQTT5 success (short form, remaining length 2); symbolic packet id"
#[kani::proof]
#[kani::unwind(8)]
#[kani::stub(std::fmt::format, stub_format)]
fn c02_pubrel5_success() { ack_body(2, 1) }

// @gv props=C02,C05 tier=thorough required=no fns=write_pubrel_encoding_steps5
// @gv bounds="PUBREL generated by the client, MQTT5 failing reason code without properties (remaining length 3); symbolic packet id"
#[kani::proof]
#[kani::unwind(8)]
#[kani::stub(std::fmt::format, stub_format)]
fn c02_pubrel5_failing() { ack_body(2, 2) }

// @gv props=C02,C05 tier=quick required=yes fns=write_pubcomp_encoding_steps311
// @gv bounds="PUBCOMP generated by the client, MQTT 3.1.1 (fixed four bytes); symbolic packet id"
#[kani::proof]
#[kani::unwind(8)]
#[kani::stub(std::fmt::format, stub_format)]
fn c02_pubcomp311() { ack_body(3, 0) }

// @gv props=C02,C05 tier=quick required=yes fns=write_pubcomp_encoding_steps5
// @gv bounds="PUBCOMP generated by the client, MQTT5 success (short form, remaining length 2); symbolic packet id"
#[kani::proof]
#[kani::unwind(8)]
#[kani::stub(std::fmt::format, stub_format)]
fn c02_pubcomp5_success() { ack_body(3, 1) }

// @gv props=C02,C05 tier=thorough required=no fns=write_pubcomp_encoding_steps5
// @gv bounds="PUBCOMP generated by the client, MQTT5 failing reason code without properties (remaining length 3); symbolic packet id"
#[kani::proof]
#[kani::unwind(8)]
#[kani::stub(std::fmt::format, stub_format)]
fn c02_pubcomp5_failing() { ack_body(3, 2) }

// @gv props=C02,C14 tier=quick required=yes fns=write_pingreq_encoding_steps
// @gv bounds="PINGREQ in both protocol versions: exactly the two bytes C0 00"
#[kani::proof]
#[kani::unwind(6)]
#[kani::stub(std::fmt::format, stub_format)]
fn c02_pingreq() {
    let v5: bool = kani::any();
    let c = ctx(if v5 { ProtocolVersion::Mqtt5 } else { ProtocolVersion::Mqtt311 }, OutboundAliasResolution::default());
    let mut steps: VecDeque<EncodingStep> = VecDeque::with_capacity(8);
    let r = crate::mqtt::pingreq::write_pingreq_encoding_steps(&PingreqPacket {}, &c, &mut steps);
    assert!(r.is_ok());
    let mut w = Layout::new();
    w.u8(0xC0); w.u8(0);
    check_steps(&mut steps, &w, no_field);
    std::mem::forget(r); std::mem::forget(steps);
}

// ------------------------------------------------------------------------------------------------
// H4 the encode loop: the byte stream does not depend on how the output buffer space is sized
// ------------------------------------------------------------------------------------------------

/// Runs the real Encoder::encode loop over fresh destination buffers of capacity `cap` until Complete, collecting the output.
fn drain(enc: &mut Encoder, packet: &MqttPacket, cap: usize, out: &mut [u8; 24]) -> usize {
    let mut n = 0usize;
    let mut rounds = 0;
    loop {
        let mut dest: Vec<u8> = Vec::with_capacity(cap);
        let r = enc.encode(packet, &mut dest);
        let done = match &r { Ok(EncodeResult::Complete) => true, Ok(EncodeResult::Full) => false, Err(_) => { assert!(false, "gv: encoding must not fail"); true } };
        std::mem::forget(r);
        assert!(dest.capacity() == cap, "gv: the encoder must never grow the destination buffer");
        assert!(done || dest.len() > 0, "gv: every round must make progress");
        let mut i = 0;
        while i < dest.len() { out[n] = dest[i]; n += 1; i += 1; }
        std::mem::forget(dest);
        rounds += 1;
        if done { break; }
        if rounds >= 8 { assert!(false, "gv: encoding must terminate"); break; }
    }
    n
}

fn chunk_body(cap: usize) {
    let data: [u8; 5] = kani::any();
    kani::assume(data[0] < 0x80 && data[1] < 0x80 && data[2] < 0x80 && data[3] < 0x80 && data[4] < 0x80);
    let packet = MqttPacket::Publish(PublishPacket { topic: s_of(&data), payload: Some(data.to_vec()), ..Default::default() });
    let (a, b, c, v): (u8, u16, u32, u32) = (kani::any(), kani::any(), kani::any(), kani::any());
    kani::assume(v <= 268_435_455);
    // a step list with every kind of step the encoder knows: fixed-width, VBI, string slice, byte slice
    let mut small = Encoder { steps: VecDeque::with_capacity(8) };
    let mut roomy = Encoder { steps: VecDeque::with_capacity(8) };
    let mut k = 0;
    while k < 2 {
        let e = if k == 0 { &mut small } else { &mut roomy };
        e.steps.push_back(EncodingStep::Uint8(a));
        e.steps.push_back(EncodingStep::Vli(v));
        e.steps.push_back(EncodingStep::StringSlice(get_topic_for_test, 0));
        e.steps.push_back(EncodingStep::Uint16(b));
        e.steps.push_back(EncodingStep::BytesSlice(get_payload_for_test, 0));
        e.steps.push_back(EncodingStep::Uint32(c));
        k += 1;
    }
    let mut o1 = [0u8; 24];
    let mut o2 = [0u8; 24];
    let n1 = drain(&mut small, &packet, cap, &mut o1);
    let n2 = drain(&mut roomy, &packet, 24, &mut o2);
    assert!(n1 == n2, "gv: the number of bytes emitted does not depend on the buffer capacity");
    let mut i = 0;
    while i < 24 { if i < n1 { assert!(o1[i] == o2[i], "gv: the emitted byte stream does not depend on the buffer capacity"); } i += 1; }
    // and it is what the steps denote
    let mut w = Sink::new();
    w.u8(a); w.vbi(v); w.bytes(&data); w.u16(b); w.bytes(&data); w.u32(c);
    assert!(n2 == w.n);
    let mut i = 0;
    while i < 24 { if i < n2 { assert!(o2[i] == w.b[i]); } i += 1; }
    std::mem::forget(small); std::mem::forget(roomy); std::mem::forget(packet);
}

// @gv props=C02,C11 tier=thorough required=no fns=Encoder::encode,process_encoding_step,process_byte_slice_encoding,encode_vli
// @gv bounds="a six-step list (Uint8, Vli, 5-byte string slice, Uint16, 5-byte byte slice, Uint32; all values and contents symbolic) drained through destination buffers of capacity 4 vs one roomy buffer"
// @gv timeout=2400 mem=16
#[kani::proof]
#[kani::unwind(12)]
#[kani::stub(std::fmt::format, stub_format)]
fn c02_chunk_cap4() { chunk_body(4) }

// @gv props=C02,C11 tier=thorough required=no fns=Encoder::encode,process_encoding_step,process_byte_slice_encoding,encode_vli
// @gv bounds="as c02_chunk_cap4 with capacity 7"
// @gv timeout=2400 mem=16
#[kani::proof]
#[kani::unwind(12)]
#[kani::stub(std::fmt::format, stub_format)]
fn c02_chunk_cap7() { chunk_body(7) }
