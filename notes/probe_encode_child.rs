use super::{encode_vli, compute_variable_length_integer_encode_size, process_byte_slice_encoding};

fn stub_format(_args: std::fmt::Arguments<'_>) -> String { String::new() }

#[kani::proof]
#[kani::unwind(6)]
#[kani::stub(std::fmt::format, stub_format)]
fn probee_vli_all_u32() {
    let v: u32 = kani::any();
    let mut dest: Vec<u8> = Vec::with_capacity(8);
    let r = encode_vli(v, &mut dest);
    let ok = r.is_ok(); std::mem::forget(r);
    assert!(ok == (v <= 268_435_455));
    if ok {
        let n = if v < 128 { 1 } else if v < 16384 { 2 } else if v < 2_097_152 { 3 } else { 4 };
        assert!(dest.len() == n);
        let sz = compute_variable_length_integer_encode_size(v as usize);
        if let Ok(k) = &sz { assert!(*k == n); } else { assert!(false); }
        std::mem::forget(sz);
        // oracle decode (spec 1.5.5)
        let mut val: u32 = 0; let mut i = 0;
        while i < n { val |= ((dest[i] & 0x7f) as u32) << (7 * i as u32); assert!(((dest[i] & 0x80) != 0) == (i + 1 < n)); i += 1; }
        assert!(val == v);
    }
    std::mem::forget(dest);
}

#[kani::proof]
#[kani::unwind(10)]
fn probee_slice_step() {
    let data: [u8; 8] = kani::any();
    let len: usize = kani::any(); kani::assume(len <= 8);
    let offset: usize = kani::any(); kani::assume(offset <= len);
    let used: usize = kani::any(); kani::assume(used <= 8);
    let mut dest: Vec<u8> = Vec::with_capacity(8);
    let mut i = 0; while i < used { dest.push(0xAA); i += 1; }
    let cap = dest.capacity();
    let next = process_byte_slice_encoding(&data[..len], offset, &mut dest);
    let space = 8 - used;
    let remaining = len - offset;
    let n = if space < remaining { space } else { remaining };
    assert!(dest.capacity() == cap);
    assert!(dest.len() == used + n);
    let mut i = 0; while i < n { assert!(dest[used + i] == data[offset + i]); i += 1; }
    if n < remaining { assert!(next == offset + n); } else { assert!(next == 0); }
    std::mem::forget(dest);
}
