// Concrete counterexample produced by Kani/CBMC for harness protocol::gv_protocol::c01_failure_batch_survives_error (property C01).
// Replay: ./check C01 --replay /verif/replays/C01/c01_failure_batch_survives_error.rs
// module: protocol_child.rs
// assertion: ""gv: every operation of a failed batch is resolved, also after an earlier one reported an error""
#[test]
fn kani_concrete_playback_c01_failure_batch_survives_error_4924987258072690787() {
    let concrete_vals: Vec<Vec<u8>> = vec![
    ];
    kani::concrete_playback_run(concrete_vals, c01_failure_batch_survives_error);
}
