// @gv-module parent=gneiss-mqtt/src/mqtt/unsubscribe.rs name=gv_enc_unsubscribe pkg=gneiss-mqtt
//
// Child module of mqtt/unsubscribe.rs. C02: UNSUBSCRIBE on the wire vs the OASIS layout (MQTT5 3.10, MQTT 3.1.1 3.10).
use super::{write_unsubscribe_encoding_steps5, write_unsubscribe_encoding_steps311, get_unsubscribe_packet_user_property, get_unsubscribe_packet_topic_filter};
use crate::encode::{EncodingStep, EncodingContext};
use crate::alias::OutboundAliasResolution;
use crate::mqtt::{MqttPacket, ProtocolVersion, UnsubscribePacket, UserProperty, QualityOfService};
use std::collections::VecDeque;

include!("common.rs");
include!("encode_common.rs");

const F_FILTER: u8 = 1; const F_UP_NAME: u8 = 6; const F_UP_VALUE: u8 = 7;

fn field_of(step: &EncodingStep) -> (u8, usize) {
    match step {
        EncodingStep::IndexedString(g, i, _) => { if *g as usize == get_unsubscribe_packet_topic_filter as fn(&MqttPacket, usize) -> &str as usize { (F_FILTER, *i) } else { (0, 0) } }
        EncodingStep::UserPropertyName(g, i, _) => { if *g as usize == get_unsubscribe_packet_user_property as fn(&MqttPacket, usize) -> &UserProperty as usize { (F_UP_NAME, *i) } else { (0, 0) } }
        EncodingStep::UserPropertyValue(g, i, _) => { if *g as usize == get_unsubscribe_packet_user_property as fn(&MqttPacket, usize) -> &UserProperty as usize { (F_UP_VALUE, *i) } else { (0, 0) } }
        _ => (0, 0),
    }
}

fn unsubscribe_body(v5: bool, two: bool, with_prop: bool, cap: usize) {
    let pid: u16 = kani::any();
    let mut filters = vec!["a/+".to_string()];
    if two { filters.push("cc".to_string()); }
    let inner = UnsubscribePacket { packet_id: pid, topic_filters: filters,
        user_properties: if with_prop { Some(vec![UserProperty { name: "n".to_string(), value: "vv".to_string() }]) } else { None } };
    let c = ctx(if v5 { ProtocolVersion::Mqtt5 } else { ProtocolVersion::Mqtt311 }, OutboundAliasResolution::default());
    let mut steps: VecDeque<EncodingStep> = VecDeque::with_capacity(cap);
    let r = if v5 { write_unsubscribe_encoding_steps5(&inner, &c, &mut steps) } else { write_unsubscribe_encoding_steps311(&inner, &c, &mut steps) };
    assert!(r.is_ok());
    let mut w = Layout::new();
    w.u8(0xA2);
    let rl = w.hole();
    w.u16(pid);
    if v5 {
        let pl = w.hole();
        w.in_props = true;
        if with_prop { w.u8(38); w.lp(F_UP_NAME, 0, 1); w.lp(F_UP_VALUE, 0, 2); }
        w.in_props = false;
        let plen = w.bytes_from(pl + 1, true);
        w.fill(pl, plen);
    }
    w.lp(F_FILTER, 0, 3);
    if two { w.lp(F_FILTER, 1, 2); }
    let rlen = w.bytes_from(rl + 1, false);
    w.fill(rl, rlen);
    check_steps(&mut steps, &w, field_of);
    std::mem::forget(r); std::mem::forget(steps); std::mem::forget(inner);
}

// @gv props=C02 tier=quick required=yes fns=write_unsubscribe_encoding_steps5,compute_unsubscribe_packet_length_properties5
// @gv bounds="UNSUBSCRIBE/MQTT5 with two filters and one user property; symbolic packet id"
// @gv timeout=1200 mem=5
#[kani::proof]
#[kani::unwind(16)]
#[kani::stub(std::fmt::format, stub_format)]
fn c02_unsubscribe5() { unsubscribe_body(true, true, true, 16) }

// @gv props=C02 tier=quick required=yes fns=write_unsubscribe_encoding_steps311,compute_unsubscribe_packet_length_properties311
// @gv bounds="UNSUBSCRIBE/MQTT3.1.1 with one filter while a user property is set (must not reach the wire); symbolic packet id"
// @gv timeout=1200 mem=5
#[kani::proof]
#[kani::unwind(10)]
#[kani::stub(std::fmt::format, stub_format)]
fn c02_unsubscribe311() { unsubscribe_body(false, false, true, 8) }
