// @gv-module parent=gneiss-mqtt/src/protocol.rs name=gv_protocol pkg=gneiss-mqtt
//
// Child module of protocol.rs: sees the private fields and functions of ProtocolState.
// Explicit imports only (the parent's `use std::...::*` globs break #[kani::stub] path resolution).
use super::{ProtocolState, ProtocolStateConfig, ProtocolStateType, NetworkEventContext, NetworkEvent, PacketEvent,
    ClientOperation, ClientOperationOptions, ServiceContext, ProtocolQueueServiceMode, ProtocolQueueType,
    ProtocolEnqueuePosition, OperationTimeoutRecord, OperationResponse,
    does_packet_pass_offline_queue_policy, build_negotiated_settings, sort_operation_deque,
    partition_operations_by_queue_policy, fold_timepoint, fold_optional_timepoint_min};
use crate::mqtt::{MqttPacket, PublishPacket, QualityOfService, PubackPacket, PubrecPacket, PubrelPacket, PubcompPacket,
    ConnackPacket, ConnectPacket, PingreqPacket, PingrespPacket, SubscribePacket, UnsubscribePacket, DisconnectPacket,
    SubackPacket, UnsubackPacket, AuthPacket, Subscription, ConnectReasonCode, PubrecReasonCode};
use crate::client::config::{ConnectOptions, OfflineQueuePolicy, ProtocolMode, PostReconnectQueueDrainPolicy, RejoinSessionPolicy};
use crate::client::{PublishOptionsInternal, PublishOptions, SubscribeOptionsInternal, SubscribeOptions,
    UnsubscribeOptionsInternal, UnsubscribeOptions, ResponseHandler, PublishResult, SubscribeResult, UnsubscribeResult,
    NegotiatedSettings, PublishResponse, Qos2Response};
use crate::error::{GneissError, GneissResult};
use std::cmp::Reverse;
use std::collections::VecDeque;
use std::time::{Duration, Instant};

include!("common.rs");

// ------------------------------------------------------------------------------------------------
// construction helpers
// ------------------------------------------------------------------------------------------------

fn mk_config() -> ProtocolStateConfig {
    ProtocolStateConfig {
        connect_options: ConnectOptions::builder().build(),
        base_timestamp: zero_instant(),
        offline_queue_policy: OfflineQueuePolicy::PreserveAll,
        ping_timeout: Duration::from_secs(30),
        outbound_alias_resolver: None,
        protocol_mode: ProtocolMode::Mqtt5,
        post_reconnect_queue_drain_policy: PostReconnectQueueDrainPolicy::None,
        max_interrupted_retries: None,
    }
}

fn mk_state(s: ProtocolStateType) -> ProtocolState {
    let mut st = ProtocolState::new(mk_config());
    st.state = s;
    st
}

fn any_qos() -> QualityOfService {
    let q: u8 = kani::any();
    kani::assume(q < 3);
    qos_of(q)
}

fn qos_of(q: u8) -> QualityOfService {
    match q { 0 => QualityOfService::AtMostOnce, 1 => QualityOfService::AtLeastOnce, _ => QualityOfService::ExactlyOnce }
}

fn qos_num(q: QualityOfService) -> u8 {
    match q { QualityOfService::AtMostOnce => 0, QualityOfService::AtLeastOnce => 1, QualityOfService::ExactlyOnce => 2 }
}

fn any_policy() -> OfflineQueuePolicy {
    match kani::any::<u8>() % 4 {
        0 => OfflineQueuePolicy::PreserveAll,
        1 => OfflineQueuePolicy::PreserveAcknowledged,
        2 => OfflineQueuePolicy::PreserveQos1PlusPublishes,
        _ => OfflineQueuePolicy::PreserveNothing,
    }
}

fn any_state() -> ProtocolStateType {
    match kani::any::<u8>() % 5 {
        0 => ProtocolStateType::Disconnected,
        1 => ProtocolStateType::PendingConnack,
        2 => ProtocolStateType::Connected,
        3 => ProtocolStateType::PendingDisconnect,
        _ => ProtocolStateType::Halted,
    }
}

// completion recorder: user operations carry a handler that counts its invocations
static mut CALLS: u32 = 0;
static mut OKS: u32 = 0;

fn mk_publish_handler() -> ResponseHandler<PublishResult> {
    Box::new(move |res| {
        unsafe { CALLS += 1; if res.is_ok() { OKS += 1; } }
        std::mem::forget(res);
        Ok(())
    })
}

fn mk_publish_op(id: u64, pid: Option<u16>, qos: QualityOfService, dup: bool) -> ClientOperation {
    ClientOperation {
        id,
        packet: Box::new(MqttPacket::Publish(PublishPacket { packet_id: pid.unwrap_or(0), qos, duplicate: dup, ..Default::default() })),
        qos2_pubrel: None,
        packet_id: pid,
        options: Some(ClientOperationOptions::Publish(PublishOptionsInternal { options: PublishOptions::default(), response_handler: Some(mk_publish_handler()) })),
        ping_extension_base_timepoint: None,
        slow_start_ack_value: 0,
        interruption_count: 0,
    }
}

fn mk_subscribe_op(id: u64, pid: Option<u16>) -> ClientOperation {
    let handler: ResponseHandler<SubscribeResult> = Box::new(move |res| { unsafe { CALLS += 1; if res.is_ok() { OKS += 1; } } std::mem::forget(res); Ok(()) });
    ClientOperation {
        id,
        packet: Box::new(MqttPacket::Subscribe(SubscribePacket { packet_id: pid.unwrap_or(0), ..Default::default() })),
        qos2_pubrel: None,
        packet_id: pid,
        options: Some(ClientOperationOptions::Subscribe(SubscribeOptionsInternal { options: SubscribeOptions::default(), response_handler: Some(handler) })),
        ping_extension_base_timepoint: None,
        slow_start_ack_value: 0,
        interruption_count: 0,
    }
}

fn mk_unsubscribe_op(id: u64, pid: Option<u16>) -> ClientOperation {
    let handler: ResponseHandler<UnsubscribeResult> = Box::new(move |res| { unsafe { CALLS += 1; if res.is_ok() { OKS += 1; } } std::mem::forget(res); Ok(()) });
    ClientOperation {
        id,
        packet: Box::new(MqttPacket::Unsubscribe(UnsubscribePacket { packet_id: pid.unwrap_or(0), ..Default::default() })),
        qos2_pubrel: None,
        packet_id: pid,
        options: Some(ClientOperationOptions::Unsubscribe(UnsubscribeOptionsInternal { options: UnsubscribeOptions::default(), response_handler: Some(handler) })),
        ping_extension_base_timepoint: None,
        slow_start_ack_value: 0,
        interruption_count: 0,
    }
}

fn mk_internal_op(id: u64, packet: MqttPacket) -> ClientOperation {
    ClientOperation { id, packet: Box::new(packet), qos2_pubrel: None, packet_id: None, options: None,
        ping_extension_base_timepoint: None, slow_start_ack_value: 0, interruption_count: 0 }
}

fn publish_of(st: &ProtocolState, id: u64) -> &PublishPacket {
    match &*st.operations.get(&id).unwrap().packet { MqttPacket::Publish(p) => p, _ => panic!("gv: not a publish") }
}

fn at(secs: u64) -> Instant { zero_instant() + Duration::from_secs(secs) }

fn net_ctx<'a>(events: &'a mut VecDeque<PacketEvent>, now: Instant) -> NetworkEventContext<'a> {
    NetworkEventContext { event: NetworkEvent::WriteCompletion, current_time: now, packet_events: events }
}

// ------------------------------------------------------------------------------------------------
// C05 inbound publishes
// ------------------------------------------------------------------------------------------------

// @gv props=C05,C11 tier=quick required=yes fns=ProtocolState::handle_publish,ProtocolState::create_operation,ProtocolState::enqueue_operation
// @gv bounds="one inbound PUBLISH, symbolic QoS / packet id / DUP; inbound-QoS2 set holding 0..1 symbolic id; engine state Connected"
// @gv timeout=900 mem=12
#[kani::proof]
#[kani::unwind(4)]
#[kani::stub(std::fmt::format, stub_format)]
fn c05_publish_step() {
    let mut state = mk_state(ProtocolStateType::Connected);
    let k1: u16 = kani::any();
    let has_known: bool = kani::any();
    if has_known { state.qos2_incomplete_incoming_publishes.insert(k1); }
    let pid: u16 = kani::any();
    let q: u8 = kani::any();
    kani::assume(q < 3);
    let publish = PublishPacket { packet_id: pid, qos: qos_of(q), duplicate: kani::any(), ..Default::default() };
    let mut events: VecDeque<PacketEvent> = VecDeque::new();
    let r = {
        let mut ctx = net_ctx(&mut events, zero_instant());
        state.handle_publish(Box::new(MqttPacket::Publish(publish)), &mut ctx)
    };
    assert!(r.is_ok());
    let known = has_known && k1 == pid;
    let dup_qos2 = q == 2 && known;
    kani::cover!(dup_qos2, "duplicate QoS2 delivery suppressed");
    kani::cover!(q == 2 && !known, "fresh QoS2 delivery");
    // surfaced exactly once unless it is a QoS2 identifier that has not been released yet
    assert!(events.len() == if dup_qos2 { 0 } else { 1 });
    if let Some(PacketEvent::Publish(p)) = events.front() { assert!(p.packet_id == pid && qos_num(p.qos) == q); }
    // exactly one acknowledgement of the right type and id
    assert!(state.high_priority_operation_queue.len() == if q == 0 { 0 } else { 1 });
    if q >= 1 {
        let op_id = *state.high_priority_operation_queue.back().unwrap();
        let op = state.operations.get(&op_id).unwrap();
        match &*op.packet {
            MqttPacket::Puback(p) => { assert!(q == 1 && p.packet_id == pid); }
            MqttPacket::Pubrec(p) => { assert!(q == 2 && p.packet_id == pid); }
            _ => { assert!(false); }
        }
        assert!(op.options.is_none() && op.packet_id.is_none());
    }
    // the inbound set: QoS2 id recorded, nothing else changes
    if q == 2 { assert!(state.qos2_incomplete_incoming_publishes.contains(&pid)); }
    assert!(state.qos2_incomplete_incoming_publishes.len() == has_known as usize + if q == 2 && !known { 1 } else { 0 });
    if has_known { assert!(state.qos2_incomplete_incoming_publishes.contains(&k1)); }
    assert!(state.user_operation_queue.is_empty() && state.resubmit_operation_queue.is_empty());
    std::mem::forget(r);
    std::mem::forget(events);
    std::mem::forget(state);
}

// ack ordering: acknowledgements are appended at the BACK, behind whatever is already queued
// @gv props=C05 tier=quick required=yes fns=ProtocolState::handle_publish,ProtocolState::enqueue_operation
// @gv bounds="one earlier ack already queued; inbound PUBLISH of concrete QoS 1 and 2 (one harness each), symbolic id"
// @gv timeout=900 mem=12
#[kani::proof]
#[kani::unwind(4)]
#[kani::stub(std::fmt::format, stub_format)]
fn c05_ack_back_q1() { ack_back(QualityOfService::AtLeastOnce) }

// @gv props=C05 tier=quick required=yes fns=ProtocolState::handle_publish,ProtocolState::enqueue_operation
// @gv bounds="as c05_ack_back_q1 for QoS 2"
// @gv timeout=900 mem=12
#[kani::proof]
#[kani::unwind(4)]
#[kani::stub(std::fmt::format, stub_format)]
fn c05_ack_back_q2() { ack_back(QualityOfService::ExactlyOnce) }

fn ack_back(qos: QualityOfService) {
    let mut state = mk_state(ProtocolStateType::Connected);
    let id0 = state.create_operation(Box::new(MqttPacket::Puback(PubackPacket { packet_id: 77, ..Default::default() })), None);
    state.enqueue_operation(id0, ProtocolQueueType::HighPriority, ProtocolEnqueuePosition::Back);
    let pid: u16 = kani::any();
    let mut events: VecDeque<PacketEvent> = VecDeque::new();
    let r = {
        let mut ctx = net_ctx(&mut events, zero_instant());
        state.handle_publish(Box::new(MqttPacket::Publish(PublishPacket { packet_id: pid, qos, ..Default::default() })), &mut ctx)
    };
    assert!(r.is_ok());
    assert!(state.high_priority_operation_queue.len() == 2);
    assert!(*state.high_priority_operation_queue.front().unwrap() == id0);
    assert!(*state.high_priority_operation_queue.back().unwrap() > id0);
    std::mem::forget(r);
    std::mem::forget(events);
    std::mem::forget(state);
}

// @gv props=C05,C11 tier=quick required=yes fns=ProtocolState::handle_pubrel
// @gv bounds="one inbound PUBREL with symbolic id; inbound-QoS2 set holding 0..2 symbolic ids; 0..1 earlier ack queued"
#[kani::proof]
#[kani::unwind(4)]
#[kani::stub(std::fmt::format, stub_format)]
fn c05_pubrel_step() {
    let mut state = mk_state(if kani::any() { ProtocolStateType::Connected } else { ProtocolStateType::PendingDisconnect });
    let k1: u16 = kani::any();
    let k2: u16 = kani::any();
    let n_known: u8 = kani::any();
    kani::assume(n_known <= 2);
    if n_known >= 1 { state.qos2_incomplete_incoming_publishes.insert(k1); }
    if n_known >= 2 { kani::assume(k2 != k1); state.qos2_incomplete_incoming_publishes.insert(k2); }
    let earlier: bool = kani::any();
    if earlier {
        let id = state.create_operation(Box::new(MqttPacket::Pubrec(PubrecPacket { packet_id: 77, ..Default::default() })), None);
        state.enqueue_operation(id, ProtocolQueueType::HighPriority, ProtocolEnqueuePosition::Back);
    }
    let before = state.high_priority_operation_queue.len();
    let pid: u16 = kani::any();
    let r = state.handle_pubrel(Box::new(MqttPacket::Pubrel(PubrelPacket { packet_id: pid, ..Default::default() })));
    assert!(r.is_ok());
    let known = (n_known >= 1 && k1 == pid) || (n_known >= 2 && k2 == pid);
    kani::cover!(known, "PUBREL releases a known id");
    kani::cover!(!known, "PUBREL for an unknown id");
    assert!(!state.qos2_incomplete_incoming_publishes.contains(&pid));
    assert!(state.qos2_incomplete_incoming_publishes.len() == n_known as usize - if known { 1 } else { 0 });
    if n_known >= 1 && k1 != pid { assert!(state.qos2_incomplete_incoming_publishes.contains(&k1)); }
    if n_known >= 2 && k2 != pid { assert!(state.qos2_incomplete_incoming_publishes.contains(&k2)); }
    assert!(state.high_priority_operation_queue.len() == before + 1);
    let op_id = *state.high_priority_operation_queue.back().unwrap();
    match &*state.operations.get(&op_id).unwrap().packet {
        MqttPacket::Pubcomp(p) => { assert!(p.packet_id == pid); }
        _ => { assert!(false); }
    }
    std::mem::forget(r);
    std::mem::forget(state);
}

// @gv props=C05 tier=quick required=yes fns=ProtocolState::handle_publish,ProtocolState::handle_pubrel
// @gv bounds="two-step and three-step inbound sequences PUBLISH(q2,p) [; PUBREL(r)] ; PUBLISH(q2,p') with symbolic ids from an empty set"
// @gv timeout=900
#[kani::proof]
#[kani::unwind(4)]
#[kani::stub(std::fmt::format, stub_format)]
fn c05_two_steps() {
    let mut state = mk_state(ProtocolStateType::Connected);
    let p1: u16 = kani::any();
    let p2: u16 = kani::any();
    let rel: Option<u16> = if kani::any() { Some(kani::any()) } else { None };
    let mut events: VecDeque<PacketEvent> = VecDeque::new();
    {
        let mut ctx = net_ctx(&mut events, zero_instant());
        let r = state.handle_publish(Box::new(MqttPacket::Publish(PublishPacket { packet_id: p1, qos: QualityOfService::ExactlyOnce, ..Default::default() })), &mut ctx);
        assert!(r.is_ok()); std::mem::forget(r);
    }
    if let Some(r_id) = rel {
        let r = state.handle_pubrel(Box::new(MqttPacket::Pubrel(PubrelPacket { packet_id: r_id, ..Default::default() })));
        assert!(r.is_ok()); std::mem::forget(r);
    }
    {
        let mut ctx = net_ctx(&mut events, zero_instant());
        let r = state.handle_publish(Box::new(MqttPacket::Publish(PublishPacket { packet_id: p2, qos: QualityOfService::ExactlyOnce, duplicate: kani::any(), ..Default::default() })), &mut ctx);
        assert!(r.is_ok()); std::mem::forget(r);
    }
    let released = rel == Some(p1);
    let second_surfaced = p1 != p2 || released;
    kani::cover!(p1 == p2 && !released, "redelivery before release is suppressed");
    kani::cover!(p1 == p2 && released, "same id after release is a new message");
    assert!(events.len() == if second_surfaced { 2 } else { 1 });
    // acknowledgements leave in arrival order: PUBREC(p1) [PUBCOMP(r)] PUBREC(p2)
    let n = state.high_priority_operation_queue.len();
    assert!(n == if rel.is_some() { 3 } else { 2 });
    let first = *state.high_priority_operation_queue.front().unwrap();
    let last = *state.high_priority_operation_queue.back().unwrap();
    match &*state.operations.get(&first).unwrap().packet { MqttPacket::Pubrec(p) => assert!(p.packet_id == p1), _ => assert!(false) }
    match &*state.operations.get(&last).unwrap().packet { MqttPacket::Pubrec(p) => assert!(p.packet_id == p2), _ => assert!(false) }
    if let Some(r_id) = rel {
        let mid = state.high_priority_operation_queue[1];
        match &*state.operations.get(&mid).unwrap().packet { MqttPacket::Pubcomp(p) => assert!(p.packet_id == r_id), _ => assert!(false) }
    }
    assert!(first < last);
    std::mem::forget(events);
    std::mem::forget(state);
}

// @gv props=C05,C06 tier=quick required=yes fns=ProtocolState::apply_session_present_to_connection
// @gv bounds="empty operation queues (no retain/reject decision arises); inbound-QoS2 set with 1..2 symbolic ids; 0..2 symbolic stale packet-id reservations; session flag concrete per branch"
#[kani::proof]
#[kani::unwind(6)]
#[kani::stub(std::fmt::format, stub_format)]
fn c05_session_clears_inbound_set() {
    let mut state = mk_state(ProtocolStateType::Connected);
    let k1: u16 = kani::any();
    let k2: u16 = kani::any();
    kani::assume(k1 != k2);
    state.qos2_incomplete_incoming_publishes.insert(k1);
    let two: bool = kani::any();
    if two { state.qos2_incomplete_incoming_publishes.insert(k2); }
    let present: bool = kani::any();
    let r = if present { state.apply_session_present_to_connection(true) } else { state.apply_session_present_to_connection(false) };
    assert!(r.is_ok());
    kani::cover!(present, "session resumed");
    kani::cover!(!present, "session lost");
    if present {
        assert!(state.qos2_incomplete_incoming_publishes.contains(&k1));
        assert!(state.qos2_incomplete_incoming_publishes.len() == if two { 2 } else { 1 });
    } else {
        assert!(state.qos2_incomplete_incoming_publishes.is_empty());
        assert!(state.allocated_packet_ids.is_empty());
    }
    std::mem::forget(r);
    std::mem::forget(state);
}

// ------------------------------------------------------------------------------------------------
// C06 packet identifiers
// ------------------------------------------------------------------------------------------------

// @gv props=C06,C11 tier=quick required=yes fns=ProtocolState::acquire_free_packet_id
// @gv bounds="three symbolic distinct non-zero ids already reserved, symbolic non-zero allocator cursor (all 65535 positions incl. wrap 65535->1)"
#[kani::proof]
#[kani::unwind(6)]
#[kani::stub(std::fmt::format, stub_format)]
fn c06_alloc() {
    let mut st = mk_state(ProtocolStateType::Connected);
    let (a, b, c): (u16, u16, u16) = (kani::any(), kani::any(), kani::any());
    kani::assume(a != 0 && b != 0 && c != 0 && a != b && b != c && a != c);
    st.allocated_packet_ids.insert(a, 1);
    st.allocated_packet_ids.insert(b, 2);
    st.allocated_packet_ids.insert(c, 3);
    let start: u16 = kani::any();
    kani::assume(start != 0);
    st.next_packet_id = start;
    let r = st.acquire_free_packet_id(9);
    let id = match &r { Ok(v) => *v, Err(_) => { assert!(false); 0 } };
    kani::cover!(id < start, "allocator wrapped 65535 -> 1");
    kani::cover!(id != start, "cursor position was taken, search advanced");
    assert!(id != 0 && id != a && id != b && id != c);
    assert!(st.allocated_packet_ids.get(&id) == Some(&9));
    assert!(st.allocated_packet_ids.len() == 4);
    assert!(st.allocated_packet_ids.get(&a) == Some(&1) && st.allocated_packet_ids.get(&b) == Some(&2) && st.allocated_packet_ids.get(&c) == Some(&3));
    assert!(st.next_packet_id != 0);
    // the id handed out is the first free one at or after the cursor (cyclically)
    let mut e = start;
    let mut guard = 0;
    while (e == a || e == b || e == c) && guard < 3 { e = if e == u16::MAX { 1 } else { e + 1 }; guard += 1; }
    assert!(id == e);
    std::mem::forget(r);
    std::mem::forget(st);
}

// @gv props=C06,C04 tier=quick required=yes fns=ProtocolState::acquire_packet_id_for_operation,ClientOperation::bind_packet_id
// @gv bounds="one operation of each kind (QoS0/1/2 publish, subscribe, unsubscribe, internal PUBACK), unbound or already bound to a symbolic id; one other symbolic reservation; symbolic cursor"
#[kani::proof]
#[kani::unwind(6)]
#[kani::stub(std::fmt::format, stub_format)]
fn c06_bind() {
    let mut st = mk_state(ProtocolStateType::Connected);
    let other: u16 = kani::any();
    kani::assume(other != 0);
    st.allocated_packet_ids.insert(other, 1);
    let start: u16 = kani::any();
    kani::assume(start != 0);
    st.next_packet_id = start;
    let kind: u8 = kani::any();
    kani::assume(kind < 6);
    let bound: bool = kani::any();
    let pid: u16 = kani::any();
    kani::assume(pid != 0 && pid != other);
    let b = if bound && kind != 0 && kind != 5 { Some(pid) } else { None };
    let op = match kind {
        0 => mk_publish_op(7, None, QualityOfService::AtMostOnce, false),
        1 => mk_publish_op(7, b, QualityOfService::AtLeastOnce, bound),
        2 => mk_publish_op(7, b, QualityOfService::ExactlyOnce, bound),
        3 => mk_subscribe_op(7, b),
        4 => mk_unsubscribe_op(7, b),
        _ => mk_internal_op(7, MqttPacket::Puback(PubackPacket { packet_id: 5, ..Default::default() })),
    };
    if b.is_some() { st.allocated_packet_ids.insert(pid, 7); }
    st.operations.insert(7, op);
    let r = st.acquire_packet_id_for_operation(7);
    assert!(r.is_ok());
    let op = st.operations.get(&7).unwrap();
    kani::cover!(b.is_some(), "already bound: retransmission");
    kani::cover!(b.is_none() && kind >= 1 && kind <= 4, "fresh binding");
    if kind == 0 || kind == 5 {
        assert!(op.packet_id.is_none());
        assert!(st.allocated_packet_ids.len() == 1);
    } else if let Some(orig) = b {
        // retransmission reuses the original identifier
        assert!(op.packet_id == Some(orig));
        assert!(st.allocated_packet_ids.len() == 2 && st.allocated_packet_ids.get(&orig) == Some(&7));
    } else {
        let got = op.packet_id.unwrap();
        assert!(got != 0 && got != other);
        assert!(st.allocated_packet_ids.get(&got) == Some(&7));
        assert!(st.allocated_packet_ids.len() == 2);
    }
    // the packet carries the bound id
    match &*op.packet {
        MqttPacket::Publish(p) => assert!(p.packet_id == op.packet_id.unwrap_or(0)),
        MqttPacket::Subscribe(p) => assert!(Some(p.packet_id) == op.packet_id),
        MqttPacket::Unsubscribe(p) => assert!(Some(p.packet_id) == op.packet_id),
        _ => {}
    }
    std::mem::forget(r);
    std::mem::forget(st);
}

// @gv props=C06 tier=quick required=yes fns=ProtocolState::unbind_operation_packet_id,ClientOperation::unbind_packet_id
// @gv bounds="one bound publish/subscribe/unsubscribe with symbolic id plus one other symbolic reservation"
#[kani::proof]
#[kani::unwind(6)]
#[kani::stub(std::fmt::format, stub_format)]
fn c06_unbind() {
    let mut st = mk_state(ProtocolStateType::Connected);
    let other: u16 = kani::any();
    let pid: u16 = kani::any();
    kani::assume(other != 0 && pid != 0 && pid != other);
    st.allocated_packet_ids.insert(other, 1);
    st.allocated_packet_ids.insert(pid, 7);
    let kind: u8 = kani::any();
    kani::assume(kind < 3);
    let op = match kind { 0 => mk_publish_op(7, Some(pid), QualityOfService::AtLeastOnce, true), 1 => mk_subscribe_op(7, Some(pid)), _ => mk_unsubscribe_op(7, Some(pid)) };
    st.operations.insert(7, op);
    st.unbind_operation_packet_id(7);
    let op = st.operations.get(&7).unwrap();
    assert!(op.packet_id.is_none());
    assert!(st.allocated_packet_ids.len() == 1 && st.allocated_packet_ids.get(&other) == Some(&1) && !st.allocated_packet_ids.contains_key(&pid));
    match &*op.packet {
        MqttPacket::Publish(p) => assert!(p.packet_id == 0),
        MqttPacket::Subscribe(p) => assert!(p.packet_id == 0),
        MqttPacket::Unsubscribe(p) => assert!(p.packet_id == 0),
        _ => assert!(false),
    }
    // unknown operation id: nothing happens
    st.unbind_operation_packet_id(8);
    assert!(st.allocated_packet_ids.len() == 1);
    std::mem::forget(st);
}

// ------------------------------------------------------------------------------------------------
// shared small-state family for queue / flow-control / service-time harnesses (C08 C09 C10)
// ------------------------------------------------------------------------------------------------

#[derive(Copy, Clone, PartialEq, Eq)]
enum Loc { User, Resubmit, High, Absent }

fn any_loc() -> Loc {
    match kani::any::<u8>() % 4 { 0 => Loc::User, 1 => Loc::Resubmit, 2 => Loc::High, _ => Loc::Absent }
}

fn place(st: &mut ProtocolState, id: u64, loc: Loc) {
    match loc {
        Loc::User => st.user_operation_queue.push_back(id),
        Loc::Resubmit => st.resubmit_operation_queue.push_back(id),
        Loc::High => st.high_priority_operation_queue.push_back(id),
        Loc::Absent => {}
    }
}

/// Connected engine with symbolic flow-control state: receive maximum, slow-start counter, drain policy,
/// write-pending flag; npend pending publishes and nsub pending subscribes (stale table entries: only the table
/// sizes are read by the functions under test).
fn flow_state(npend: usize, nsub: usize) -> ProtocolState {
    let mut cfg = mk_config();
    cfg.post_reconnect_queue_drain_policy = if kani::any() { PostReconnectQueueDrainPolicy::OneAtATime } else { PostReconnectQueueDrainPolicy::None };
    let mut st = ProtocolState::new(cfg);
    st.state = ProtocolStateType::Connected;
    let rm: u16 = kani::any();
    st.current_settings = Some(NegotiatedSettings { receive_maximum_from_server: rm, ..Default::default() });
    // table SIZES are concrete per harness (a conditional insert makes the model's length symbolic: measured OOM);
    // the comparison `pending >= receive maximum` is still fully explored through the symbolic receive maximum
    if npend >= 1 { st.pending_publish_operations.insert(100, 50); }
    if npend >= 2 { st.pending_publish_operations.insert(101, 51); }
    if nsub >= 1 { st.pending_non_publish_operations.insert(102, 52); }
    st.slow_start_ack_count = kani::any();
    st.pending_write_completion = kani::any();
    st
}

fn is_qos_publish(st: &ProtocolState, id: u64) -> bool {
    match st.operations.get(&id) {
        Some(op) => match &*op.packet { MqttPacket::Publish(p) => p.qos != QualityOfService::AtMostOnce, _ => false },
        None => false,
    }
}

fn rm_limit(st: &ProtocolState) -> usize {
    match &st.current_settings { Some(s) => s.receive_maximum_from_server as usize, None => usize::MAX }
}

fn throttled(st: &ProtocolState) -> bool {
    st.config.post_reconnect_queue_drain_policy == PostReconnectQueueDrainPolicy::OneAtATime
        && st.state == ProtocolStateType::Connected && st.slow_start_ack_count > 0
        && (!st.pending_publish_operations.is_empty() || !st.pending_non_publish_operations.is_empty())
}

/// Specification of which operation may leave the queues next (C09 gate, C10 priority): written from the
/// property text, independent of dequeue_operation.
fn oracle_next(st: &ProtocolState, all: bool) -> Option<u64> {
    if st.pending_write_completion { return None; }
    if let Some(h) = st.high_priority_operation_queue.front() { return Some(*h); }
    if !all { return None; }
    if throttled(st) { return None; }
    let head = match st.resubmit_operation_queue.front() { Some(h) => Some(*h), None => st.user_operation_queue.front().copied() };
    match head {
        Some(h) => {
            if is_qos_publish(st, h) && st.pending_publish_operations.len() >= rm_limit(st) { None } else { Some(h) }
        }
        None => None,
    }
}

fn dequeue_mirror_body(npend: usize, nsub: usize, can_block: bool, op_a: ClientOperation, la: Loc, op_b: Option<(ClientOperation, Loc)>) {
    let mut st = flow_state(npend, nsub);
    st.operations.insert(1, op_a);
    place(&mut st, 1, la);
    if let Some((b, lb)) = op_b {
        st.operations.insert(2, b);
        place(&mut st, 2, lb);
    }
    let all: bool = kani::any();
    let mode = if all { ProtocolQueueServiceMode::All } else { ProtocolQueueServiceMode::HighPriorityOnly };
    st.current_time = at(kani::any::<u32>() as u64);
    let expect = oracle_next(&st, all);
    let tp = st.get_next_service_timepoint_protocol_queue(mode);
    let pend_before = st.pending_publish_operations.len();
    let got = st.dequeue_operation(mode);
    kani::cover!(got.is_some(), "an operation is dequeued");
    kani::cover!(!can_block || (got.is_none() && !st.pending_write_completion && all), "nothing leaves although no write is pending (flow control / slow start)");
    // C10 / C09: exactly the operation the specification allows leaves, nothing overtakes a blocked head
    assert!(got == expect);
    // C08: the reported service time mirrors the dequeue rule: "now" iff there is sendable work
    assert!(tp.is_some() == got.is_some());
    if let Some(t) = tp { assert!(t == st.current_time); }
    // (C09: the oracle only releases a QoS>0 publish from the resubmit/user queue below the receive maximum)
    std::mem::forget(st);
}

// ------------------------------------------------------------------------------------------------
// C08 timers
// ------------------------------------------------------------------------------------------------

fn opt_time() -> Option<Instant> { if kani::any() { Some(at(kani::any::<u32>() as u64)) } else { None } }

fn omin(a: Option<Instant>, b: Option<Instant>) -> Option<Instant> {
    match (a, b) { (Some(x), Some(y)) => Some(if x <= y { x } else { y }), (Some(x), None) => Some(x), (None, y) => y }
}

fn timers_body(n_rec: usize, loc: Loc) {
    let mut st = mk_state(ProtocolStateType::Connected);
    st.current_time = at(kani::any::<u32>() as u64);
    st.next_ping_timepoint = opt_time();
    st.ping_timeout_timepoint = opt_time();
    let t1 = at(kani::any::<u32>() as u64);
    let t2 = at(kani::any::<u32>() as u64);
    if n_rec >= 1 { st.operation_ack_timeouts.push(Reverse(OperationTimeoutRecord { id: 11, timeout: t1 })); }
    if n_rec >= 2 { st.operation_ack_timeouts.push(Reverse(OperationTimeoutRecord { id: 12, timeout: t2 })); }
    let earliest_ack = if n_rec == 0 { None } else if n_rec == 1 { Some(t1) } else { Some(if t1 <= t2 { t1 } else { t2 }) };
    st.pending_write_completion = kani::any();
    if loc != Loc::Absent { st.operations.insert(1, mk_publish_op(1, None, QualityOfService::AtMostOnce, false)); place(&mut st, 1, loc); }
    let connack_deadline = at(kani::any::<u32>() as u64);
    st.connack_timeout_timepoint = Some(connack_deadline);

    // connected: min(ping deadline, earliest ack timeout) always; plus ping-due time and "now if work is sendable" unless a write is pending
    let work_now = if !st.pending_write_completion && loc != Loc::Absent { Some(st.current_time) } else { None };
    let always = omin(st.ping_timeout_timepoint, earliest_ack);
    let expect_connected = if st.pending_write_completion { always } else { omin(omin(always, st.next_ping_timepoint), work_now) };
    let got = st.get_next_service_timepoint_connected();
    kani::cover!(got.is_none() || n_rec > 0 || loc != Loc::Absent, "nothing scheduled");
    kani::cover!(n_rec < 2 || (got == earliest_ack && t2 < t1), "second ack-timeout record is the earliest");
    assert!(got == expect_connected);

    // pending connack: the CONNACK deadline, or now when a high-priority operation can be sent
    let work_high = if !st.pending_write_completion && loc == Loc::High { Some(st.current_time) } else { None };
    assert!(st.get_next_service_timepoint_pending_connack() == omin(work_high, Some(connack_deadline)));
    // pending disconnect: high-priority work or the earliest ack timeout
    assert!(st.get_next_service_timepoint_pending_disconnect() == omin(work_high, earliest_ack));
    std::mem::forget(st);
}

// ------------------------------------------------------------------------------------------------
// C09 counting
// ------------------------------------------------------------------------------------------------

fn fully_written_body(npend: usize, nsub: usize, op: ClientOperation, is_qos_pub: bool, is_subunsub: bool, is_disconnect: bool) {
    let mut st = flow_state(npend, nsub);
    st.pending_write_completion = false;
    let pid = op.packet_id;
    st.operations.insert(1, op);
    st.current_operation = Some(1);
    let pp = st.pending_publish_operations.len();
    let pn = st.pending_non_publish_operations.len();
    let now = at(kani::any::<u32>() as u64);
    st.on_current_operation_fully_written(now);
    assert!(st.current_operation.is_none());
    // exactly the QoS>0 publish that was just written joins the in-flight table: the count rises by one per gate passage
    assert!(st.pending_publish_operations.len() == pp + if is_qos_pub { 1 } else { 0 });
    assert!(st.pending_non_publish_operations.len() == pn + if is_subunsub { 1 } else { 0 });
    if is_qos_pub { assert!(st.pending_publish_operations.get(&pid.unwrap()) == Some(&1)); }
    if is_subunsub { assert!(st.pending_non_publish_operations.get(&pid.unwrap()) == Some(&1)); }
    assert!(st.pending_write_completion_operations.len() == if is_qos_pub || is_subunsub { 0 } else { 1 });
    assert!((st.state == ProtocolStateType::PendingDisconnect) == is_disconnect);
    assert!(st.operations.get(&1).unwrap().ping_extension_base_timepoint == Some(now));
    std::mem::forget(st);
}

fn written_publish_body(npend: usize, nsub: usize) {
    let q = any_qos();
    let pid: u16 = kani::any();
    kani::assume(pid != 0 && pid != 100 && pid != 101);
    let bound = if q == QualityOfService::AtMostOnce { None } else { Some(pid) };
    fully_written_body(npend, nsub, mk_publish_op(1, bound, q, false), q != QualityOfService::AtMostOnce, false, false);
}

fn written_other_body(k: usize) {
    let pid: u16 = kani::any();
    kani::assume(pid != 0 && pid != 102);
    match k {
        0 => fully_written_body(1, 1, mk_subscribe_op(1, Some(pid)), false, true, false),
        1 => fully_written_body(1, 1, mk_internal_op(1, MqttPacket::Disconnect(DisconnectPacket { ..Default::default() })), false, false, true),
        _ => fully_written_body(1, 1, mk_internal_op(1, MqttPacket::Pingreq(PingreqPacket {})), false, false, false),
    }
}

// @gv props=C09 tier=quick required=yes fns=ProtocolState::apply_slow_start_initialization,ProtocolState::initialize_slow_start,ProtocolState::apply_ackable_completion
// @gv bounds="two operations: one pending (publish, symbolic QoS>0) and one merely queued; drain policy symbolic; stale slow-start marks symbolic"
// @gv timeout=900 mem=12
#[kani::proof]
#[kani::unwind(6)]
#[kani::stub(std::fmt::format, stub_format)]
fn c09_slow_start_counting() {
    let mut cfg = mk_config();
    let one = kani::any::<bool>();
    cfg.post_reconnect_queue_drain_policy = if one { PostReconnectQueueDrainPolicy::OneAtATime } else { PostReconnectQueueDrainPolicy::None };
    let mut st = ProtocolState::new(cfg);
    st.state = ProtocolStateType::Connected;
    let pid: u16 = kani::any();
    kani::assume(pid != 0);
    let mut a = mk_publish_op(1, Some(pid), if kani::any() { QualityOfService::AtLeastOnce } else { QualityOfService::ExactlyOnce }, false);
    let mut b = mk_publish_op(2, None, QualityOfService::AtLeastOnce, false);
    let stale_a: u32 = kani::any();
    let stale_b: u32 = kani::any();
    kani::assume(stale_a <= 1 && stale_b <= 1);
    a.slow_start_ack_value = stale_a;
    b.slow_start_ack_value = stale_b;
    st.operations.insert(1, a);
    st.operations.insert(2, b);
    st.pending_publish_operations.insert(pid, 1);
    st.allocated_packet_ids.insert(pid, 1);
    st.user_operation_queue.push_back(2);
    st.apply_slow_start_initialization();
    if one {
        // exactly the interrupted (written, unacknowledged) operation is marked
        assert!(st.operations.get(&1).unwrap().slow_start_ack_value == 1);
        assert!(st.operations.get(&2).unwrap().slow_start_ack_value == 0);
    } else {
        assert!(st.operations.get(&1).unwrap().slow_start_ack_value == stale_a);
    }
    st.slow_start_ack_count = kani::any();
    let before = st.slow_start_ack_count;
    st.initialize_slow_start();
    if one { assert!(st.slow_start_ack_count == 1); } else { assert!(st.slow_start_ack_count == before); }
    // completion of the marked operation brings the counter back to zero; the invariant panic is unreachable
    let op = st.operations.remove(&1).unwrap();
    st.apply_ackable_completion(&op);
    if one { assert!(st.slow_start_ack_count == 0); }
    let op2 = st.operations.remove(&2).unwrap();
    st.apply_ackable_completion(&op2);
    if one { assert!(st.slow_start_ack_count == 0); }
    std::mem::forget(op); std::mem::forget(op2);
    std::mem::forget(st);
}

// ------------------------------------------------------------------------------------------------
// C10 sort
// ------------------------------------------------------------------------------------------------

fn ring(cap: usize, head: usize, vals: &[u64]) -> VecDeque<u64> {
    let mut d: VecDeque<u64> = VecDeque::with_capacity(cap);
    let mut i = 0;
    while i < head { d.push_back(0); i += 1; }
    let mut i = 0;
    while i < head { d.pop_front(); i += 1; }
    let mut i = 0;
    while i < vals.len() { d.push_back(vals[i]); i += 1; }
    d
}

fn sort_body(cap: usize, head: usize, n: usize, expect_wrapped: bool) {
    let vals: [u64; 4] = kani::any();
    let mut d = ring(cap, head, &vals[..n]);
    assert!(d.capacity() == cap);
    let wrapped = d.as_slices().1.len() > 0;
    kani::cover!(wrapped == expect_wrapped, "ring layout as intended");
    assert!(wrapped == expect_wrapped);
    sort_operation_deque(&mut d);
    assert!(d.len() == n);
    let mut i = 0;
    while i + 1 < n { assert!(d[i] <= d[i + 1]); i += 1; }
    // same multiset: every input value occurs as often in the output as in the input
    let mut i = 0;
    while i < n {
        let v = vals[i];
        let mut ci = 0; let mut co = 0; let mut j = 0;
        while j < n { if vals[j] == v { ci += 1; } if d[j] == v { co += 1; } j += 1; }
        assert!(ci == co);
        i += 1;
    }
    std::mem::forget(d);
}

// @gv props=C10 tier=quick required=yes fns=sort_operation_deque
// @gv bounds="VecDeque<u64> capacity 4, head offset 3, 3 symbolic ids (ring buffer wrapped)"
#[kani::proof]
#[kani::unwind(8)]
fn c10_sort_cap4_head3_n3() { sort_body(4, 3, 3, true) }

// @gv props=C10 tier=quick required=yes fns=sort_operation_deque
// @gv bounds="capacity 4, head offset 2, 4 symbolic ids (full and wrapped)"
#[kani::proof]
#[kani::unwind(8)]
fn c10_sort_cap4_head2_n4() { sort_body(4, 2, 4, true) }

// @gv props=C10 tier=quick required=yes fns=sort_operation_deque
// @gv bounds="capacity 4, head offset 0, 4 symbolic ids (contiguous)"
#[kani::proof]
#[kani::unwind(8)]
fn c10_sort_cap4_head0_n4() { sort_body(4, 0, 4, false) }

// @gv props=C10 tier=quick required=yes fns=sort_operation_deque
// @gv bounds="capacity 4, head offset 1, 2 symbolic ids (contiguous, offset)"
#[kani::proof]
#[kani::unwind(8)]
fn c10_sort_cap4_head1_n2() { sort_body(4, 1, 2, false) }

// @gv props=C10 tier=thorough required=no fns=sort_operation_deque
// @gv bounds="capacity 8, head offset 6, 4 symbolic ids (wrapped 2+2)"
#[kani::proof]
#[kani::unwind(10)]
fn c10_sort_cap8_head6_n4() { sort_body(8, 6, 4, true) }

// @gv props=C10 tier=thorough required=no fns=sort_operation_deque
// @gv bounds="capacity 8, head offset 7, 4 symbolic ids (wrapped 1+3)"
#[kani::proof]
#[kani::unwind(10)]
fn c10_sort_cap8_head7_n4() { sort_body(8, 7, 4, true) }

// @gv props=C10 tier=thorough required=no fns=sort_operation_deque
// @gv bounds="capacity 4, head offset 1, 4 symbolic ids (wrapped 3+1)"
#[kani::proof]
#[kani::unwind(8)]
fn c10_sort_cap4_head1_n4() { sort_body(4, 1, 4, true) }


include!("protocol_gen.rs");
