// Verification models of std::collections::{HashMap, HashSet} and lru::LruCache: association lists, insertion order.
use std::borrow::Borrow;

pub(crate) const MODEL_CAP: usize = 4;

/// Fixed-capacity association list (insertion order). Slots live inline in the struct, so CBMC sees typed
/// field accesses instead of byte-level accesses into a heap buffer (measured: two boxed operations in a
/// Vec-backed map exhausted 12 GB, the same harness with inline slots finishes). Exceeding MODEL_CAP entries
/// is a harness-bound violation and panics.
pub(crate) struct HashMap<K, V> { slots: [Option<(K, V)>; MODEL_CAP], n: usize }

pub(crate) mod hash_map {
    pub(crate) enum Entry<'a, K, V> { Occupied(OccupiedEntry<'a, K, V>), Vacant(VacantEntry<'a, K, V>) }
    pub(crate) struct OccupiedEntry<'a, K, V> { pub(crate) map: &'a mut super::HashMap<K, V>, pub(crate) index: usize }
    pub(crate) struct VacantEntry<'a, K, V> { pub(crate) map: &'a mut super::HashMap<K, V>, pub(crate) key: K }
    impl<'a, K: Eq, V> VacantEntry<'a, K, V> {
        pub(crate) fn insert(self, value: V) -> &'a mut V {
            let i = self.map.push_slot(self.key, value);
            match &mut self.map.slots[i] { Some(kv) => &mut kv.1, None => unreachable!() }
        }
    }
}

impl<K: Eq, V> HashMap<K, V> {
    pub(crate) fn new() -> Self { HashMap { slots: [None, None, None, None], n: 0 } }
    fn push_slot(&mut self, k: K, v: V) -> usize {
        assert!(self.n < MODEL_CAP, "gv model: HashMap model capacity exceeded (harness bound)");
        let i = self.n;
        self.slots[i] = Some((k, v));
        self.n += 1;
        i
    }
    fn find<Q: ?Sized + Eq>(&self, k: &Q) -> Option<usize> where K: Borrow<Q> {
        let mut i = 0;
        while i < self.n {
            if let Some(kv) = &self.slots[i] { if kv.0.borrow() == k { return Some(i); } }
            i += 1;
        }
        None
    }
    // Lookups act INSIDE the loop, where the slot index is a constant after unrolling; returning a symbolic
    // index first and indexing afterwards makes CBMC build symbolic array accesses over the whole state (measured OOM).
    pub(crate) fn insert(&mut self, k: K, v: V) -> Option<V> {
        let mut i = 0;
        while i < self.n {
            if let Some(kv) = &mut self.slots[i] { if kv.0 == k { return Some(std::mem::replace(&mut kv.1, v)); } }
            i += 1;
        }
        self.push_slot(k, v);
        None
    }
    pub(crate) fn get<Q: ?Sized + Eq>(&self, k: &Q) -> Option<&V> where K: Borrow<Q> {
        let mut i = 0;
        while i < self.n {
            if let Some(kv) = &self.slots[i] { if kv.0.borrow() == k { return Some(&kv.1); } }
            i += 1;
        }
        None
    }
    pub(crate) fn get_mut<Q: ?Sized + Eq>(&mut self, k: &Q) -> Option<&mut V> where K: Borrow<Q> {
        let n = self.n;
        let mut i = 0;
        for slot in self.slots.iter_mut() {
            if i >= n { break; }
            if let Some(kv) = slot { if (kv.0).borrow() == k { return Some(&mut kv.1); } }
            i += 1;
        }
        None
    }
    pub(crate) fn contains_key<Q: ?Sized + Eq>(&self, k: &Q) -> bool where K: Borrow<Q> { self.get(k).is_some() }
    pub(crate) fn remove<Q: ?Sized + Eq>(&mut self, k: &Q) -> Option<V> where K: Borrow<Q> {
        let mut i = 0;
        while i < self.n {
            let hit = match &self.slots[i] { Some(kv) => kv.0.borrow() == k, None => false };
            if hit {
                let out = self.slots[i].take();
                let mut j = i;
                while j + 1 < self.n { self.slots[j] = self.slots[j + 1].take(); j += 1; }
                self.n -= 1;
                return out.map(|kv| kv.1);
            }
            i += 1;
        }
        None
    }
    pub(crate) fn len(&self) -> usize { self.n }
    pub(crate) fn is_empty(&self) -> bool { self.n == 0 }
    pub(crate) fn clear(&mut self) {
        let mut i = 0;
        while i < MODEL_CAP { self.slots[i] = None; i += 1; }
        self.n = 0;
    }
    pub(crate) fn keys(&self) -> impl Iterator<Item = &K> { self.slots.iter().filter_map(|s| s.as_ref().map(|kv| &kv.0)) }
    pub(crate) fn values(&self) -> impl Iterator<Item = &V> { self.slots.iter().filter_map(|s| s.as_ref().map(|kv| &kv.1)) }
    pub(crate) fn iter(&self) -> impl Iterator<Item = (&K, &V)> { self.slots.iter().filter_map(|s| s.as_ref().map(|kv| (&kv.0, &kv.1))) }
    pub(crate) fn entry(&mut self, k: K) -> hash_map::Entry<'_, K, V> {
        match self.find(&k) {
            Some(index) => hash_map::Entry::Occupied(hash_map::OccupiedEntry { map: self, index }),
            None => hash_map::Entry::Vacant(hash_map::VacantEntry { map: self, key: k }),
        }
    }
}

pub(crate) struct IntoIter<K, V> { slots: [Option<(K, V)>; MODEL_CAP], i: usize }
impl<K, V> Iterator for IntoIter<K, V> {
    type Item = (K, V);
    fn next(&mut self) -> Option<(K, V)> {
        while self.i < MODEL_CAP {
            let v = self.slots[self.i].take();
            self.i += 1;
            if v.is_some() { return v; }
        }
        None
    }
}
impl<K, V> IntoIterator for HashMap<K, V> {
    type Item = (K, V);
    type IntoIter = IntoIter<K, V>;
    fn into_iter(self) -> Self::IntoIter { IntoIter { slots: self.slots, i: 0 } }
}

pub(crate) struct HashSet<K> { slots: [Option<K>; MODEL_CAP], n: usize }
impl<K: Eq> HashSet<K> {
    pub(crate) fn new() -> Self { HashSet { slots: [None, None, None, None], n: 0 } }
    fn find(&self, k: &K) -> Option<usize> {
        let mut i = 0;
        while i < self.n {
            if let Some(x) = &self.slots[i] { if x == k { return Some(i); } }
            i += 1;
        }
        None
    }
    pub(crate) fn contains(&self, k: &K) -> bool { self.find(k).is_some() }
    pub(crate) fn insert(&mut self, k: K) -> bool {
        if self.contains(&k) { return false; }
        assert!(self.n < MODEL_CAP, "gv model: HashSet model capacity exceeded (harness bound)");
        self.slots[self.n] = Some(k);
        self.n += 1;
        true
    }
    pub(crate) fn remove(&mut self, k: &K) -> bool {
        let mut i = 0;
        while i < self.n {
            let hit = match &self.slots[i] { Some(x) => x == k, None => false };
            if hit {
                self.slots[i] = None;
                let mut j = i;
                while j + 1 < self.n { self.slots[j] = self.slots[j + 1].take(); j += 1; }
                self.n -= 1;
                return true;
            }
            i += 1;
        }
        false
    }
    pub(crate) fn clear(&mut self) {
        let mut i = 0;
        while i < MODEL_CAP { self.slots[i] = None; i += 1; }
        self.n = 0;
    }
    pub(crate) fn len(&self) -> usize { self.n }
    pub(crate) fn is_empty(&self) -> bool { self.n == 0 }
    pub(crate) fn iter(&self) -> impl Iterator<Item = &K> { self.slots.iter().filter_map(|s| s.as_ref()) }
}
impl<K: std::fmt::Debug> std::fmt::Debug for HashSet<K> {
    fn fmt(&self, f: &mut std::fmt::Formatter<'_>) -> std::fmt::Result { self.slots.fmt(f) }
}

// Verification model of lru::LruCache (API subset used by alias.rs; documented lru 0.12 contract): inline slots ordered
// from least recently used (slot 0) to most recently used (slot n-1).
// `ghost` = number of further entries that are not materialised in a slot (one-step harnesses over a large cache: they are
// neither the least recently used entry nor equal to any key looked up); 0 everywhere else.
pub(crate) struct LruCache<K, V> { cap: usize, slots: [Option<(K, V)>; MODEL_CAP], n: usize, ghost: usize }

impl<K: Eq, V> LruCache<K, V> {
    pub(crate) fn new(cap: std::num::NonZeroUsize) -> Self {
        // capacities above MODEL_CAP are accepted; materialising more than MODEL_CAP entries fails the model assertion in push_back
        LruCache { cap: cap.get(), slots: [None, None, None, None], n: 0, ghost: 0 }
    }
    pub(crate) fn gv_set_ghost(&mut self, ghost: usize) { self.ghost = ghost; }
    pub(crate) fn len(&self) -> usize { self.n + self.ghost }
    pub(crate) fn clear(&mut self) {
        let mut i = 0;
        while i < MODEL_CAP { self.slots[i] = None; i += 1; }
        self.n = 0;
        self.ghost = 0;
    }
    pub(crate) fn peek<Q: ?Sized + Eq>(&self, k: &Q) -> Option<&V> where K: Borrow<Q> {
        let mut i = 0;
        while i < self.n {
            if let Some(kv) = &self.slots[i] { if kv.0.borrow() == k { return Some(&kv.1); } }
            i += 1;
        }
        None
    }
    pub(crate) fn peek_lru(&self) -> Option<(&K, &V)> { if self.n == 0 { None } else { self.slots[0].as_ref().map(|kv| (&kv.0, &kv.1)) } }
    fn take_at(&mut self, i: usize) -> Option<(K, V)> {
        let out = self.slots[i].take();
        let mut j = i;
        while j + 1 < self.n { self.slots[j] = self.slots[j + 1].take(); j += 1; }
        self.n -= 1;
        out
    }
    fn push_back(&mut self, e: (K, V)) { assert!(self.n < MODEL_CAP, "gv model: LruCache model capacity exceeded (harness bound)"); self.slots[self.n] = Some(e); self.n += 1; }
    pub(crate) fn promote<Q: ?Sized + Eq>(&mut self, k: &Q) where K: Borrow<Q> {
        let mut i = 0;
        while i < self.n {
            let hit = match &self.slots[i] { Some(kv) => kv.0.borrow() == k, None => false };
            if hit { if let Some(e) = self.take_at(i) { self.push_back(e); } return; }
            i += 1;
        }
    }
    pub(crate) fn pop_lru(&mut self) -> Option<(K, V)> { if self.n == 0 { None } else { self.take_at(0) } }
    pub(crate) fn push(&mut self, k: K, v: V) -> Option<(K, V)> {
        let mut i = 0;
        while i < self.n {
            let hit = match &self.slots[i] { Some(kv) => kv.0 == k, None => false };
            if hit { let old = self.take_at(i); self.push_back((k, v)); return old; }
            i += 1;
        }
        let evicted = if self.n + self.ghost >= self.cap { self.take_at(0) } else { None };
        self.push_back((k, v));
        evicted
    }
}
