"""Harness registry: parsed from the `// @gv key=value ...` comment lines that precede
each `#[kani::proof]` function in /verif/harness/*.rs (single source of truth)."""
import os
import re
import shlex

from . import inject

GV_LINE = re.compile(r"^\s*//\s*@gv\s+(.*)$")
FN_LINE = re.compile(r"^\s*(?:pub(?:\([^)]*\))?\s+)?fn\s+([A-Za-z0-9_]+)\s*\(")
MACRO_LINE = re.compile(r"^\s*[a-z_]+_harness!\(\s*([A-Za-z0-9_]+)\s*,")
UNWIND = re.compile(r"#\[kani::unwind\((\d+)\)\]")
STUB = re.compile(r"#\[kani::stub\(([^,]+),\s*([^)]+)\)\]")


class Harness:
    def __init__(self, name, module, attrs, unwind, stubs):
        self.name = name
        self.module = module            # attrs of the harness file
        self.qualified = inject.module_path(module) + "::" + name
        self.props = [p for p in attrs.get("props", "").split(",") if p]
        self.tier = attrs.get("tier", "quick")          # quick | thorough
        self.required = attrs.get("required", "yes") == "yes"
        self.fns = [f for f in attrs.get("fns", "").split(",") if f]
        self.bounds = attrs.get("bounds", "")
        self.stub_note = attrs.get("stubs", "")
        self.timeout = int(attrs.get("timeout", "600"))
        self.mem_gb = float(attrs.get("mem", "5"))
        self.finding = attrs.get("finding", "")
        self.unwind = unwind if unwind is not None else (int(attrs["unwind"]) if "unwind" in attrs else None)
        self.stubs = stubs
        self.pkg = module["pkg"]
        self.features = module.get("features", "")

    def group(self):
        return (self.pkg, self.features)


def load():
    out = []
    files = []
    mods = inject.harness_files()
    for fn, mod in mods.items():
        files.append((mod["path"], mod))
    for fn in sorted(os.listdir(inject.HARNESS_DIR)):
        if not fn.endswith(".rs"):
            continue
        path = os.path.join(inject.HARNESS_DIR, fn)
        m = re.search(r"^//\s*@gv-part-of\s+(\S+)", open(path, encoding="utf-8").read(), re.M)
        if m and m.group(1) in mods:
            files.append((path, mods[m.group(1)]))
    for path, mod in files:
        with open(path, encoding="utf-8") as f:
            lines = f.read().split("\n")
        attrs = {}
        unwind = None
        stubs = []
        pending = False
        for ln in lines:
            m = GV_LINE.match(ln)
            if m:
                for tok in shlex.split(m.group(1)):
                    if "=" in tok:
                        k, v = tok.split("=", 1)
                        attrs[k] = v
                pending = True
                continue
            if not pending:
                continue
            u = UNWIND.search(ln)
            if u:
                unwind = int(u.group(1))
            s = STUB.search(ln)
            if s:
                stubs.append("%s -> %s" % (s.group(1).strip(), s.group(2).strip()))
            f = FN_LINE.match(ln) or MACRO_LINE.match(ln)
            if f:
                out.append(Harness(f.group(1), mod, attrs, unwind, stubs))
                attrs, unwind, stubs, pending = {}, None, [], False
    names = [h.name for h in out]
    dup = set(n for n in names if names.count(n) > 1)
    if dup:
        raise RuntimeError("duplicate harness names: %s" % sorted(dup))
    return out


# Quick tier of a property = its PRIMARY quick harnesses (first id in `props=`) plus the quick harnesses of other properties
# listed here that decide a mechanism this property also depends on. The thorough tier runs every harness tagged with the
# property. (Keeps each quick check within a few minutes; nothing is lost in the thorough tier.)
SHARE = [
    (r"^c07_settings$", ["C16"]),
    (r"^c04_close_(pendingack|highpubrel)$", ["C06", "C15"]),
    (r"^c15_close_current_k2_", ["C07", "C04"]),
    (r"^c04_current_k[0145]_preservenothing_q[12]$", ["C15"]),
    (r"^c04_current_k0_preserveacknowledged_q0$", ["C15"]),
    (r"^c04_current_k0_preserveall_q1$", ["C15", "C10"]),
    (r"^c03_reset_for_new_connection$", ["C11", "C07"]),
    (r"^c15_session_absent_", ["C04", "C06"]),
    (r"^c08_mirror_pub_(user|resubmit)_p2s0$", ["C09", "C10"]),
    (r"^c08_mirror_pub_high_p0s0$", ["C07", "C10"]),
    (r"^c10_priority_resubmit_user_p2s0$", ["C09", "C08"]),
    (r"^c09_written_disconnect$", ["C07"]),
    (r"^c09_written_publish_p0s0$", ["C18"]),
    (r"^c06_bind$", ["C04"]),
    (r"^c04_send_loop_0$", ["C06", "C16"]),
    (r"^c04_send_loop_[12]$", ["C01"]),
    (r"^c04_send_loop_3$", ["C07"]),
    (r"^c04_send_loop_4$", ["C01"]),
    (r"^c04_send_loop_5$", ["C17"]),
    (r"^c04_send_loop_[67]$", ["C17"]),
    (r"^c04_session_present$", ["C06"]),
    (r"^c04_current_k[13]_preservenothing_q2$", ["C01"]),
    (r"^c04_close_pendingack$", ["C01"]),
    (r"^c06_alloc$", ["C11"]),
    (r"^c05_session_clears_inbound_set$", ["C06"]),
    (r"^c02_publish5_alias_", ["C17"]),
    (r"^c02_publish311$", ["C17"]),
    (r"^c02_connect5_credentials$", ["C07"]),
    (r"^c02_connect311_full$", ["C07"]),
    (r"^c02_pingreq$", ["C14"]),
    (r"^c02_pub(ack|rec|comp)5_success$", ["C05"]),
    (r"^c03_(frame_rl_k3_r0|vli|error_absorbing|frame_body_r2_s1_n2)$", ["C11"]),
    (r"^c11_guard_(publish|puback)$", ["C07"]),
    (r"^c14_ping_step$", ["C11"]),
    (r"^c18_deadline$", ["C11"]),
    (r"^c19_step_(nojitter|uniform)$", ["C11"]),
    (r"^c08_timers_r2_user$", ["C18", "C14"]),
    (r"^c01_ack_(pubcomp_q2_released|pubcomp_q2_early)$", ["C04"]),
    (r"^c18_ack_timeouts_fire$", ["C08"]),
    (r"^c15_submit_publish_q0$", ["C10"]),
    (r"^c16_static_publish_props$", ["C04"]),
    (r"^c15_close_queued_w2s_preserveacknowledged_q0$", ["C10"]),
    (r"^c18_close_retry_limit_l2c2$", ["C15"]),
    (r"^c07_connack_success$", ["C17", "C14"]),
]


def shared_with(name):
    out = []
    for rx, props in SHARE:
        if re.match(rx, name):
            out += props
    return out


def for_property(prop, tier):
    hs = [h for h in load() if prop in h.props or prop in shared_with(h.name)]
    if tier == "quick":
        hs = [h for h in hs if h.tier == "quick" and (h.props[0] == prop or prop in shared_with(h.name))]
    return hs
