// Concrete counterexample produced by Kani/CBMC for harness protocol::gv_protocol::c18_armed_when_fully_written (property C18).
// Replay: ./check C18 --replay /verif/replays/C18/c18_armed_when_fully_written.rs
// module: protocol_child.rs
// assertion: ""gv: the ack timeout is armed when the packet has been completely written""
#[test]
fn kani_concrete_playback_c18_armed_when_fully_written_1813291650293313048() {
    let concrete_vals: Vec<Vec<u8>> = vec![
        // 0
        vec![0, 0, 0, 0],
        // 32768
        vec![0, 128],
        // 0
        vec![0],
        // 0
        vec![0, 0, 0, 0],
    ];
    kani::concrete_playback_run(concrete_vals, c18_armed_when_fully_written);
}
