// Concrete counterexample produced by Kani/CBMC for harness protocol::gv_protocol::c06_session_absent_restarts_user_queue (property C06).
// Replay: ./check C06 --replay /verif/replays/C06/c06_session_absent_restarts_user_queue.rs
// module: protocol_child.rs
/// Test generated for harness `protocol::gv_protocol::c06_session_absent_restarts_user_queue` 
///
/// Check for `assertion`: "assertion failed: o.packet_id.is_none()"
///
/// # Warning
///
/// Concrete playback tests combined with stubs or contracts is highly
/// experimental, and subject to change.
///
/// The original harness has stubs which are not applied to this test.
/// This may cause a mismatch of non-deterministic values if the stub
/// creates any non-deterministic value.
/// The execution path may also differ, which can be used to refine the stub
/// logic.

#[test]
fn kani_concrete_playback_c06_session_absent_restarts_user_queue_12410433153507451009() {
    let concrete_vals: Vec<Vec<u8>> = vec![
        // 32768
        vec![0, 128],
        // 16384
        vec![0, 64],
        // 0
        vec![0],
    ];
    kani::concrete_playback_run(concrete_vals, c06_session_absent_restarts_user_queue);
}
