// Concrete counterexample produced by Kani/CBMC for harness protocol::gv_protocol::c04_current_k3_preservenothing_q2 (property C01).
// Replay: ./check C01 --replay /verif/replays/C01/c04_current_k3_preservenothing_q2.rs
// module: protocol_child.rs
// assertion: ""gv: an interrupted retransmission goes back to the front of the retransmission queue""
#[test]
fn kani_concrete_playback_c04_current_k3_preservenothing_q2_10249279959869846469() {
    let concrete_vals: Vec<Vec<u8>> = vec![
        // 32768
        vec![0, 128],
    ];
    kani::concrete_playback_run(concrete_vals, c04_current_k3_preservenothing_q2);
}
