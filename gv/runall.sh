#!/bin/sh
# Runs every claimed property's check of the given tier in sequence; prints exit status and wall time per property.
cd "$(dirname "$0")/.."
TIER=${1:-quick}
shift
PROPS=${*:-$(python3 -c "import json;print(' '.join(c['property_id'] for c in json.load(open('MANIFEST.json'))['checks']))")}
for p in $PROPS; do
  s=$(date +%s)
  ./check $p --tier $TIER > .logs/run_$p.$TIER.out 2>&1
  rc=$?
  echo "$p exit=$rc $(( $(date +%s) - s ))s $(tail -1 .logs/run_$p.$TIER.out)"
done
