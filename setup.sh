#!/bin/sh
# Offline set-up: nothing is fetched or built ahead of time; every check builds what it needs from /repo's
# working tree in a scratch directory. This only verifies that the pre-installed tools are present.
set -e
cd "$(dirname "$0")"
mkdir -p evidence replays
cargo kani --version
cbmc --version
/usr/bin/z3 --version
cvc5 --version | head -1
python3 --version
python3 gv/manifest.py >/dev/null
python3 - <<'PY'
import json
m = json.load(open("MANIFEST.json"))
print("manifest ok:", len(m["checks"]), "checks")
PY
