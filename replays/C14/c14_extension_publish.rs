// Concrete counterexample produced by Kani/CBMC for harness protocol::gv_protocol::c14_extension_publish (property C14).
// Replay: ./check C14 --replay /verif/replays/C14/c14_extension_publish.rs
// module: protocol_child.rs
// cover: "next ping pushed out"
#[test]
fn kani_concrete_playback_c14_extension_publish_3183030928450724383() {
    let concrete_vals: Vec<Vec<u8>> = vec![
        // 2
        vec![2],
        // 65534
        vec![254, 255],
        // 1
        vec![1],
        // 4294967295
        vec![255, 255, 255, 255],
        // 1
        vec![1],
        // 4294967295
        vec![255, 255, 255, 255],
    ];
    kani::concrete_playback_run(concrete_vals, c14_extension_publish);
}
