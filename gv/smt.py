"""E2: small SMT-LIB composition lemmas (specification mathematics, never a stand-in for code).
Each lemma is the NEGATION of the claim; `unsat` from BOTH z3 and cvc5 is required; any `(error` line or
disagreement is inconclusive."""
import os
import subprocess

LEMMAS = {
    "C19": [
        {
            "name": "L19_closed_form_step",
            "statement": "for integers y,M >= 0: min(2*min(y,M), M) = min(2*y, M); with y = base*2^k this lifts the one-step relation "
                         "next' = min(2*next, max) proved on the code (c19_step_*) to the closed form wait_k = min(base*2^k, max) by induction on k "
                         "(the saturating variant min(min(2y,U),M) with U >= M is the same value)",
            "smt2": """(set-logic ALL)
(declare-const y Int) (declare-const M Int) (declare-const U Int)
(define-fun mn ((a Int) (b Int)) Int (ite (<= a b) a b))
(assert (>= y 0)) (assert (>= M 0)) (assert (>= U M))
(assert (or (not (= (mn (* 2 (mn y M)) M) (mn (* 2 y) M)))
            (not (= (mn (mn (* 2 (mn y M)) U) M) (mn (* 2 y) M)))))
(check-sat)
""",
        },
        {
            "name": "L19_bounded_by_max",
            "statement": "base <= x <= M implies base <= min(2x, M) <= M (the interval [base,max] is invariant under the step), for base >= 0",
            "smt2": """(set-logic ALL)
(declare-const x Int) (declare-const M Int) (declare-const b Int)
(define-fun mn ((a Int) (b Int)) Int (ite (<= a b) a b))
(assert (>= b 0)) (assert (<= b x)) (assert (<= x M))
(assert (not (and (<= b (mn (* 2 x) M)) (<= (mn (* 2 x) M) M))))
(check-sat)
""",
        },
    ],
    "C14": [
        {
            "name": "L14_gap_bounded_by_keepalive",
            "statement": "let p be the next-ping time with invariant p <= last_tx + K (established at CONNACK: p = t0 + K, last_tx = t0). "
                         "Step A (acknowledged transmission written at t >= last_tx, t <= p): p' = max(p, t + K) and last_tx' = t gives p' = t+K <= last_tx' + K. "
                         "Step B (service at the reported time t = p sends a PINGREQ): p' = t + K, last_tx' = t. In both steps the gap t - last_tx <= K "
                         "and the invariant is re-established, so no interval without a transmission exceeds K when service runs at the reported times",
            "smt2": """(set-logic ALL)
(declare-const p Int) (declare-const last Int) (declare-const K Int) (declare-const t Int)
(define-fun mx ((a Int) (b Int)) Int (ite (>= a b) a b))
(assert (> K 0)) (assert (<= p (+ last K))) (assert (>= p last))
(assert (>= t last)) (assert (<= t p))
; step A: acknowledged transmission at t ; step B: ping at t = p
(assert (or
  (not (<= (- t last) K))
  (not (<= (mx p (+ t K)) (+ t K)))
  (not (>= (mx p (+ t K)) t))
  (and (= t p) (not (<= (+ t K) (+ t K))))))
(check-sat)
""",
        },
    ],
}


def lemmas_for(prop):
    return LEMMAS.get(prop, [])


def _run(cmd, text, timeout=60):
    try:
        p = subprocess.run(cmd, input=text.encode(), stdout=subprocess.PIPE, stderr=subprocess.STDOUT, timeout=timeout)
        return p.stdout.decode(errors="replace").strip()
    except (subprocess.TimeoutExpired, FileNotFoundError) as e:
        return "(error \"%s\")" % e


def run_lemmas(lemmas, log_dir):
    out = []
    for l in lemmas:
        z = _run(["/usr/bin/z3", "-in"], l["smt2"])
        c = _run(["cvc5", "--lang", "smt2"], l["smt2"])
        solvers = {"z3": z, "cvc5": c}
        if "(error" in z or "(error" in c:
            verdict, detail = "inconclusive", "solver error: z3=%r cvc5=%r" % (z, c)
        elif z == "unsat" and c == "unsat":
            verdict, detail = "proved", ""
        elif z == "sat" and c == "sat":
            verdict, detail = "refuted", "both solvers return sat"
        else:
            verdict, detail = "inconclusive", "z3=%r cvc5=%r" % (z, c)
        out.append({"name": l["name"], "statement": l["statement"], "verdict": verdict, "detail": detail, "solvers": solvers})
        if log_dir:
            with open(os.path.join(log_dir, "lemma_%s.smt2" % l["name"]), "w") as f:
                f.write(l["smt2"])
    return out
