// Concrete counterexample produced by Kani/CBMC for harness client::gv_client::c19_step_uniform (property C19).
// Replay: ./check C19 --replay /verif/replays/C19/c19_step_uniform.rs
// module: client_child.rs
/// Test generated for harness `client::gv_client::c19_step_uniform` 
///
/// Check for `assertion`: "This is a placeholder message; Kani doesn't support message formatted at runtime"
///
/// # Warning
///
/// Concrete playback tests combined with stubs or contracts is highly
/// experimental, and subject to change.
///
/// The original harness has stubs which are not applied to this test.
/// This may cause a mismatch of non-deterministic values if the stub
/// creates any non-deterministic value.
/// The execution path may also differ, which can be used to refine the stub
/// logic.

#[test]
fn kani_concrete_playback_c19_step_uniform_4746776234598204175() {
    let concrete_vals: Vec<Vec<u8>> = vec![
        // 18446744073709551612ul
        vec![252, 255, 255, 255, 255, 255, 255, 255],
        // 999999999
        vec![255, 201, 154, 59],
        // 11529215046068469762ul
        vec![2, 0, 0, 0, 0, 0, 0, 160],
        // 268435456
        vec![0, 0, 0, 16],
        // 18446744073709551615ul
        vec![255, 255, 255, 255, 255, 255, 255, 255],
        // 999999999
        vec![255, 201, 154, 59],
        // 11529215046068469762ul
        vec![2, 0, 0, 0, 0, 0, 0, 160],
        // 738764007
        vec![231, 164, 8, 44],
    ];
    kani::concrete_playback_run(concrete_vals, c19_step_uniform);
}
