// Concrete counterexample produced by Kani/CBMC for harness alias::gv_alias::c17_lru_conf3_steps4 (property C17).
// Replay: ./check C17 --replay /verif/replays/C17/c17_lru_conf3_steps4.rs
// module: alias_child.rs
/// Test generated for harness `alias::gv_alias::c17_lru_conf3_steps4` 
///
/// Check for `cover`: "server grants fewer aliases than the resolver is configured for"
///
/// # Warning
///
/// Concrete playback tests combined with stubs or contracts is highly
/// experimental, and subject to change.
///
/// The original harness has stubs which are not applied to this test.
/// This may cause a mismatch of non-deterministic values if the stub
/// creates any non-deterministic value.
/// The execution path may also differ, which can be used to refine the stub
/// logic.

#[test]
fn kani_concrete_playback_c17_lru_conf3_steps4_17798752382851607186() {
    let concrete_vals: Vec<Vec<u8>> = vec![
        // 1
        vec![1, 0],
    ];
    kani::concrete_playback_run(concrete_vals, c17_lru_conf3_steps4);
}

/// Test generated for harness `alias::gv_alias::c17_lru_conf3_steps4` 
///
/// Check for `assertion`: ""gv: the server must reconstruct exactly the topic the application supplied""
///
/// # Warning
///
/// Concrete playback tests combined with stubs or contracts is highly
/// experimental, and subject to change.
///
/// The original harness has stubs which are not applied to this test.
/// This may cause a mismatch of non-deterministic values if the stub
/// creates any non-deterministic value.
/// The execution path may also differ, which can be used to refine the stub
/// logic.

#[test]
fn kani_concrete_playback_c17_lru_conf3_steps4_1809061840973698170() {
    let concrete_vals: Vec<Vec<u8>> = vec![
        // 1
        vec![1, 0],
        // 1
        vec![1],
        // 2
        vec![2],
        // 0
        vec![0],
        // 1
        vec![1],
    ];
    kani::concrete_playback_run(concrete_vals, c17_lru_conf3_steps4);
}
