// Concrete counterexample produced by Kani/CBMC for harness mqtt::connect::gv_enc_connect::c02_connect5_will_vbi_boundary (property C02).
// Replay: ./check C02 --replay /verif/replays/C02/c02_connect5_will_vbi_boundary.rs
// module: enc_connect_child.rs
// assertion: ""gv: variable-byte-integer step differs from the specified layout""
#[test]
fn kani_concrete_playback_c02_connect5_will_vbi_boundary_11806446318999338899() {
    let concrete_vals: Vec<Vec<u8>> = vec![
        // 0
        vec![0, 0],
        // 0
        vec![0],
        // 0
        vec![0, 0, 0, 0],
        // 0
        vec![0, 0],
        // 0
        vec![0, 0, 0, 0],
        // 0
        vec![0, 0],
        // 0
        vec![0, 0, 0, 0],
        // 0
        vec![0],
        // 0
        vec![0],
    ];
    kani::concrete_playback_run(concrete_vals, c02_connect5_will_vbi_boundary);
}

// cover: "clean start set"
#[test]
fn kani_concrete_playback_c02_connect5_will_vbi_boundary_11311259281819569715() {
    let concrete_vals: Vec<Vec<u8>> = vec![
        // 65535
        vec![255, 255],
        // 1
        vec![1],
        // 4294967295
        vec![255, 255, 255, 255],
        // 65535
        vec![255, 255],
        // 4294967295
        vec![255, 255, 255, 255],
        // 65535
        vec![255, 255],
        // 4294967295
        vec![255, 255, 255, 255],
        // 2
        vec![2],
        // 1
        vec![1],
    ];
    kani::concrete_playback_run(concrete_vals, c02_connect5_will_vbi_boundary);
}
