// Concrete counterexample produced by Kani/CBMC for harness protocol::gv_protocol::c08_mirror_pub_user_p2s0 (property C09).
// Replay: ./check C09 --replay /verif/replays/C09/c08_mirror_pub_user_p2s0.rs
// module: protocol_child.rs
/// Test generated for harness `protocol::gv_protocol::c08_mirror_pub_user_p2s0` 
///
/// Check for `cover`: "an operation is dequeued"
///
/// # Warning
///
/// Concrete playback tests combined with stubs or contracts is highly
/// experimental, and subject to change.
///
/// The original harness has stubs which are not applied to this test.
/// This may cause a mismatch of non-deterministic values if the stub
/// creates any non-deterministic value.
/// The execution path may also differ, which can be used to refine the stub
/// logic.

#[test]
fn kani_concrete_playback_c08_mirror_pub_user_p2s0_15504018128440171361() {
    let concrete_vals: Vec<Vec<u8>> = vec![
        // 2
        vec![2],
        // 0
        vec![0],
        // 1
        vec![1],
        // 6
        vec![6, 0],
        // 0
        vec![0, 0, 0, 0],
        // 0
        vec![0],
        // 1
        vec![1],
        // 4294967295
        vec![255, 255, 255, 255],
    ];
    kani::concrete_playback_run(concrete_vals, c08_mirror_pub_user_p2s0);
}

/// Test generated for harness `protocol::gv_protocol::c08_mirror_pub_user_p2s0` 
///
/// Check for `cover`: "nothing leaves although no write is pending (flow control / slow start)"
///
/// # Warning
///
/// Concrete playback tests combined with stubs or contracts is highly
/// experimental, and subject to change.
///
/// The original harness has stubs which are not applied to this test.
/// This may cause a mismatch of non-deterministic values if the stub
/// creates any non-deterministic value.
/// The execution path may also differ, which can be used to refine the stub
/// logic.

#[test]
fn kani_concrete_playback_c08_mirror_pub_user_p2s0_14997860639456043085() {
    let concrete_vals: Vec<Vec<u8>> = vec![
        // 2
        vec![2],
        // 1
        vec![1],
        // 1
        vec![1],
        // 1
        vec![1, 0],
        // 4294967295
        vec![255, 255, 255, 255],
        // 0
        vec![0],
        // 1
        vec![1],
        // 4294967295
        vec![255, 255, 255, 255],
    ];
    kani::concrete_playback_run(concrete_vals, c08_mirror_pub_user_p2s0);
}

/// Test generated for harness `protocol::gv_protocol::c08_mirror_pub_user_p2s0` 
///
/// Check for `assertion`: "assertion failed: got == expect"
///
/// # Warning
///
/// Concrete playback tests combined with stubs or contracts is highly
/// experimental, and subject to change.
///
/// The original harness has stubs which are not applied to this test.
/// This may cause a mismatch of non-deterministic values if the stub
/// creates any non-deterministic value.
/// The execution path may also differ, which can be used to refine the stub
/// logic.

#[test]
fn kani_concrete_playback_c08_mirror_pub_user_p2s0_5452027584809060014() {
    let concrete_vals: Vec<Vec<u8>> = vec![
        // 2
        vec![2],
        // 1
        vec![1],
        // 1
        vec![1],
        // 2
        vec![2, 0],
        // 0
        vec![0, 0, 0, 0],
        // 0
        vec![0],
        // 1
        vec![1],
        // 2147483648
        vec![0, 0, 0, 128],
    ];
    kani::concrete_playback_run(concrete_vals, c08_mirror_pub_user_p2s0);
}
