// Concrete counterexample produced by Kani/CBMC for harness protocol::gv_protocol::c18_due_two (property C18).
// Replay: ./check C18 --replay /verif/replays/C18/c18_due_two.rs
// module: protocol_child.rs
/// Test generated for harness `protocol::gv_protocol::c18_due_two` 
///
/// Check for `cover`: "service exactly at the deadline"

#[test]
fn kani_concrete_playback_c18_due_two_3797412429078084469() {
    let concrete_vals: Vec<Vec<u8>> = vec![
        // 1006632962
        vec![2, 0, 0, 60],
        // 2999291905
        vec![1, 144, 197, 178],
        // 2113929219
        vec![3, 0, 0, 126],
        // 999999490
        vec![2, 200, 154, 59],
        // 1006632962
        vec![2, 0, 0, 60],
        // 1999291905
        vec![1, 198, 42, 119],
    ];
    kani::concrete_playback_run(concrete_vals, c18_due_two);
}

/// Test generated for harness `protocol::gv_protocol::c18_due_two` 
///
/// Check for `cover`: "second record is the earliest"

#[test]
fn kani_concrete_playback_c18_due_two_16531950540883334956() {
    let concrete_vals: Vec<Vec<u8>> = vec![
        // 4294967295
        vec![255, 255, 255, 255],
        // 2463129099
        vec![11, 94, 208, 146],
        // 4294967295
        vec![255, 255, 255, 255],
        // 429559811
        vec![3, 144, 154, 25],
        // 4294967295
        vec![255, 255, 255, 255],
        // 2966445063
        vec![7, 92, 208, 176],
    ];
    kani::concrete_playback_run(concrete_vals, c18_due_two);
}

/// Test generated for harness `protocol::gv_protocol::c18_due_two` 
///
/// Check for `assertion`: "assertion failed: got.is_some() == (et <= st.current_time)"

#[test]
fn kani_concrete_playback_c18_due_two_7237354354207109585() {
    let concrete_vals: Vec<Vec<u8>> = vec![
        // 4294967290
        vec![250, 255, 255, 255],
        // 1394387455
        vec![255, 169, 28, 83],
        // 3221225464
        vec![248, 255, 255, 191],
        // 392428540
        vec![252, 251, 99, 23],
        // 3221225464
        vec![248, 255, 255, 191],
        // 1535034876
        vec![252, 197, 126, 91],
    ];
    kani::concrete_playback_run(concrete_vals, c18_due_two);
}
