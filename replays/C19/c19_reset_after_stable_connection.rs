// Concrete counterexample produced by Kani/CBMC for harness client::gv_client::c19_reset_after_stable_connection (property C19).
// Replay: ./check C19 --replay /verif/replays/C19/c19_reset_after_stable_connection.rs
// module: client_child.rs
/// Test generated for harness `client::gv_client::c19_reset_after_stable_connection` 
///
/// Check for `cover`: "connection outlived the stability period"
///
/// # Warning
///
/// Concrete playback tests combined with stubs or contracts is highly
/// experimental, and subject to change.
///
/// The original harness has stubs which are not applied to this test.
/// This may cause a mismatch of non-deterministic values if the stub
/// creates any non-deterministic value.
/// The execution path may also differ, which can be used to refine the stub
/// logic.

#[test]
fn kani_concrete_playback_c19_reset_after_stable_connection_14132685773614376349() {
    let concrete_vals: Vec<Vec<u8>> = vec![
        // 1
        vec![1],
        // 4611686018427387907ul
        vec![3, 0, 0, 0, 0, 0, 0, 64],
        // 536870911
        vec![255, 255, 255, 31],
        // 4611686018427387902ul
        vec![254, 255, 255, 255, 255, 255, 255, 63],
        // 134217727
        vec![255, 255, 255, 7],
        // 2143289343ul
        vec![255, 255, 191, 127, 0, 0, 0, 0],
        // 536870911
        vec![255, 255, 255, 31],
        // 4611686018427387903ul
        vec![255, 255, 255, 255, 255, 255, 255, 63],
        // 536870911
        vec![255, 255, 255, 31],
        // 3221225472
        vec![0, 0, 0, 192],
        // 4294967295
        vec![255, 255, 255, 255],
        // 3004194304
        vec![0, 94, 16, 179],
    ];
    kani::concrete_playback_run(concrete_vals, c19_reset_after_stable_connection);
}

/// Test generated for harness `client::gv_client::c19_reset_after_stable_connection` 
///
/// Check for `cover`: "connection lasted exactly the stability period (no reset)"
///
/// # Warning
///
/// Concrete playback tests combined with stubs or contracts is highly
/// experimental, and subject to change.
///
/// The original harness has stubs which are not applied to this test.
/// This may cause a mismatch of non-deterministic values if the stub
/// creates any non-deterministic value.
/// The execution path may also differ, which can be used to refine the stub
/// logic.

#[test]
fn kani_concrete_playback_c19_reset_after_stable_connection_11707522733561064021() {
    let concrete_vals: Vec<Vec<u8>> = vec![
        // 1
        vec![1],
        // 18446744073709551615ul
        vec![255, 255, 255, 255, 255, 255, 255, 255],
        // 999981055
        vec![255, 127, 154, 59],
        // 18446744073709551611ul
        vec![251, 255, 255, 255, 255, 255, 255, 255],
        // 866123775
        vec![255, 255, 159, 51],
        // 2636823244ul
        vec![204, 186, 42, 157, 0, 0, 0, 0],
        // 924651994
        vec![218, 17, 29, 55],
        // 18446744073709551615ul
        vec![255, 255, 255, 255, 255, 255, 255, 255],
        // 536870655
        vec![255, 254, 255, 31],
        // 2147483648
        vec![0, 0, 0, 128],
        // 2636823244
        vec![204, 186, 42, 157],
        // 2924651994
        vec![218, 165, 82, 174],
    ];
    kani::concrete_playback_run(concrete_vals, c19_reset_after_stable_connection);
}

/// Test generated for harness `client::gv_client::c19_reset_after_stable_connection` 
///
/// Check for `assertion`: ""gv: the time of the last successful connection must be forgotten when the connection ends""
///
/// # Warning
///
/// Concrete playback tests combined with stubs or contracts is highly
/// experimental, and subject to change.
///
/// The original harness has stubs which are not applied to this test.
/// This may cause a mismatch of non-deterministic values if the stub
/// creates any non-deterministic value.
/// The execution path may also differ, which can be used to refine the stub
/// logic.

#[test]
fn kani_concrete_playback_c19_reset_after_stable_connection_8627256709828911924() {
    let concrete_vals: Vec<Vec<u8>> = vec![
        // 1
        vec![1],
        // 4611686018427387896ul
        vec![248, 255, 255, 255, 255, 255, 255, 63],
        // 134217725
        vec![253, 255, 255, 7],
        // 4611686018427387907ul
        vec![3, 0, 0, 0, 0, 0, 0, 64],
        // 134217724
        vec![252, 255, 255, 7],
        // 1ul
        vec![1, 0, 0, 0, 0, 0, 0, 0],
        // 0
        vec![0, 0, 0, 0],
        // 4611686018427387900ul
        vec![252, 255, 255, 255, 255, 255, 255, 63],
        // 536870909
        vec![253, 255, 255, 31],
        // 2232540045
        vec![141, 219, 17, 133],
        // 0
        vec![0, 0, 0, 0],
        // 3329142400
        vec![128, 174, 110, 198],
    ];
    kani::concrete_playback_run(concrete_vals, c19_reset_after_stable_connection);
}
