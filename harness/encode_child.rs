// @gv-module parent=gneiss-mqtt/src/encode.rs name=gv_encode pkg=gneiss-mqtt
//
// Child module of encode.rs. Property C02 (outbound packets are spec-conformant and faithful; fragmentation independent).
// Oracles are written from the OASIS MQTT 5.0 / 3.1.1 packet layouts, not from the crate's codec.
use super::{encode_vli, compute_variable_length_integer_encode_size, process_byte_slice_encoding, process_encoding_step,
    EncodingStep, EncodingContext, Encoder, EncodeResult};
use crate::alias::OutboundAliasResolution;
use crate::mqtt::{MqttPacket, ProtocolVersion, PublishPacket, PubackPacket, PubrecPacket, PubrelPacket, PubcompPacket, SubscribePacket,
    UnsubscribePacket, DisconnectPacket, ConnectPacket, PingreqPacket, Subscription, UserProperty, QualityOfService,
    PubackReasonCode, PubrecReasonCode, PubrelReasonCode, PubcompReasonCode, DisconnectReasonCode, RetainHandlingType, PayloadFormatIndicator};
use std::collections::VecDeque;

include!("common.rs");

const OUT: usize = 96;

/// byte sink for the oracle and for the flattened step list
struct Sink { b: [u8; OUT], n: usize }
impl Sink {
    fn new() -> Sink { Sink { b: [0; OUT], n: 0 } }
    fn u8(&mut self, v: u8) { self.b[self.n] = v; self.n += 1; }
    fn u16(&mut self, v: u16) { self.u8((v >> 8) as u8); self.u8(v as u8); }
    fn u32(&mut self, v: u32) { self.u16((v >> 16) as u16); self.u16(v as u16); }
    /// Variable Byte Integer (MQTT 1.5.5): 7 data bits per byte, least significant group first, continuation bit 0x80
    fn vbi(&mut self, v: u32) {
        if v < 128 { self.u8(v as u8); }
        else if v < 16384 { self.u8((v & 127) as u8 | 128); self.u8((v >> 7) as u8); }
        else if v < 2097152 { self.u8((v & 127) as u8 | 128); self.u8(((v >> 7) & 127) as u8 | 128); self.u8((v >> 14) as u8); }
        else { self.u8((v & 127) as u8 | 128); self.u8(((v >> 7) & 127) as u8 | 128); self.u8(((v >> 14) & 127) as u8 | 128); self.u8((v >> 21) as u8); }
    }
    fn bytes(&mut self, s: &[u8]) { let mut i = 0; while i < s.len() { self.u8(s[i]); i += 1; } }
    fn lp(&mut self, s: &[u8]) { self.u16(s.len() as u16); self.bytes(s); }
}

fn vbi_len(v: usize) -> usize { if v < 128 { 1 } else if v < 16384 { 2 } else if v < 2097152 { 3 } else { 4 } }

/// Flattens a step list WITHOUT the real step processor (that one is verified per step kind in c02_step_*): fixed-width steps
/// become big-endian bytes, Vli the VBI, slice steps the bytes their accessor returns for this packet from the recorded offset.
fn flatten(steps: &mut VecDeque<EncodingStep>, packet: &MqttPacket, out: &mut Sink, max_steps: usize) {
    let mut guard = 0;
    while let Some(step) = steps.pop_front() {
        match step {
            EncodingStep::Uint8(v) => out.u8(v),
            EncodingStep::Uint16(v) => out.u16(v),
            EncodingStep::Uint32(v) => out.u32(v),
            EncodingStep::Vli(v) => { assert!(v <= 268_435_455); out.vbi(v) }
            EncodingStep::StringSlice(g, off) => { assert!(off == 0); out.bytes(g(packet).as_bytes()) }
            EncodingStep::BytesSlice(g, off) => { assert!(off == 0); out.bytes(g(packet)) }
            EncodingStep::IndexedString(g, i, off) => { assert!(off == 0); out.bytes(g(packet, i).as_bytes()) }
            EncodingStep::UserPropertyName(g, i, off) => { assert!(off == 0); out.bytes(g(packet, i).name.as_bytes()) }
            EncodingStep::UserPropertyValue(g, i, off) => { assert!(off == 0); out.bytes(g(packet, i).value.as_bytes()) }
        }
        guard += 1;
        if guard >= max_steps { break; }
    }
    assert!(steps.is_empty());
}

fn same(a: &Sink, b: &Sink) -> bool {
    if a.n != b.n { return false; }
    let mut i = 0;
    while i < OUT { if i < a.n && a.b[i] != b.b[i] { return false; } i += 1; }
    true
}

fn ascii2() -> [u8; 2] { let b: [u8; 2] = kani::any(); kani::assume(b[0] < 0x80 && b[1] < 0x80); b }
fn s_of(b: &[u8]) -> String { unsafe { String::from_utf8_unchecked(b.to_vec()) } }
fn qos_of(q: u8) -> QualityOfService { match q { 0 => QualityOfService::AtMostOnce, 1 => QualityOfService::AtLeastOnce, _ => QualityOfService::ExactlyOnce } }

// ------------------------------------------------------------------------------------------------
// H1 variable byte integers
// ------------------------------------------------------------------------------------------------

// @gv props=C02,C11 tier=quick required=yes fns=encode_vli,compute_variable_length_integer_encode_size
// @gv bounds="every u32 value for encode_vli; every usize for the size function"
#[kani::proof]
#[kani::unwind(6)]
#[kani::stub(std::fmt::format, stub_format)]
fn c02_vli() {
    let v: u32 = kani::any();
    let mut dest: Vec<u8> = Vec::with_capacity(8);
    let r = encode_vli(v, &mut dest);
    let mut o = Sink::new();
    if v <= 268_435_455 { o.vbi(v); }
    kani::cover!(v == 268_435_455, "largest encodable value");
    kani::cover!(v == 16384, "three-byte boundary");
    assert!(r.is_ok() == (v <= 268_435_455));
    if r.is_ok() {
        assert!(dest.len() == o.n);
        let mut i = 0;
        while i < 4 { if i < o.n { assert!(dest[i] == o.b[i]); } i += 1; }
    } else {
        assert!(dest.is_empty());
    }
    let n: usize = kani::any();
    let s = compute_variable_length_integer_encode_size(n);
    assert!(s.is_ok() == (n <= 268_435_455));
    if let Ok(k) = &s { assert!(*k == vbi_len(n)); if n == v as usize && r.is_ok() { assert!(*k == dest.len()); } }
    std::mem::forget(r); std::mem::forget(s); std::mem::forget(dest);
}

// ------------------------------------------------------------------------------------------------
// H2 the resumable slice step (fragmentation independence)
// ------------------------------------------------------------------------------------------------

// @gv props=C02,C11 tier=quick required=yes fns=process_byte_slice_encoding
// @gv bounds="field of symbolic length 0..8 with symbolic content, resume offset 0..len, destination with capacity 8 and symbolic fill 0..8"
#[kani::proof]
#[kani::unwind(10)]
fn c02_slice_step() {
    let data: [u8; 8] = kani::any();
    let len: usize = kani::any();
    kani::assume(len <= 8);
    let offset: usize = kani::any();
    kani::assume(offset <= len);
    let fill: usize = kani::any();
    kani::assume(fill <= 8);
    let mut dest: Vec<u8> = Vec::with_capacity(8);
    let mut i = 0;
    while i < fill { dest.push(0xEE); i += 1; }
    let cap0 = dest.capacity();
    let r = process_byte_slice_encoding(&data[..len], offset, &mut dest);
    let space = 8 - fill;
    let remaining = len - offset;
    let take = if space < remaining { space } else { remaining };
    kani::cover!(take < remaining && take > 0, "field split across buffers");
    kani::cover!(take == remaining && remaining > 0, "field finished");
    // appends exactly the next `take` bytes, never grows the buffer, reports the resume offset (0 = finished)
    assert!(dest.capacity() == cap0);
    assert!(dest.len() == fill + take);
    let mut i = 0;
    while i < 8 { if i < take { assert!(dest[fill + i] == data[offset + i]); } i += 1; }
    assert!(r == if take < remaining { offset + take } else { 0 });
    std::mem::forget(dest);
}

// ------------------------------------------------------------------------------------------------
// H3b what one step emits (real process_encoding_step, step variant known)
// ------------------------------------------------------------------------------------------------

fn get_topic_for_test(p: &MqttPacket) -> &str { match p { MqttPacket::Publish(x) => &x.topic, _ => panic!("gv") } }
fn get_payload_for_test(p: &MqttPacket) -> &[u8] { match p { MqttPacket::Publish(x) => x.payload.as_ref().unwrap(), _ => panic!("gv") } }
fn get_filter_for_test(p: &MqttPacket, i: usize) -> &str { match p { MqttPacket::Unsubscribe(x) => &x.topic_filters[i], _ => panic!("gv") } }
fn get_prop_for_test(p: &MqttPacket, i: usize) -> &UserProperty { match p { MqttPacket::Publish(x) => &x.user_properties.as_ref().unwrap()[i], _ => panic!("gv") } }

// @gv props=C02 tier=quick required=yes fns=process_encoding_step
// @gv bounds="the four fixed-width step kinds (Uint8/Uint16/Uint32/Vli) with symbolic values, destination capacity 8 with symbolic fill 0..4"
#[kani::proof]
#[kani::unwind(6)]
#[kani::stub(std::fmt::format, stub_format)]
fn c02_step_integral() {
    let packet = MqttPacket::Pingreq(PingreqPacket {});
    let mut steps: VecDeque<EncodingStep> = VecDeque::new();
    let fill: usize = kani::any();
    kani::assume(fill <= 4);
    let mut dest: Vec<u8> = Vec::with_capacity(8);
    let mut i = 0;
    while i < fill { dest.push(0xEE); i += 1; }
    let kind: u8 = kani::any();
    kani::assume(kind < 4);
    let v: u32 = kani::any();
    let mut o = Sink::new();
    let r = match kind {
        0 => { o.u8(v as u8); process_encoding_step(&mut steps, EncodingStep::Uint8(v as u8), &packet, &mut dest) }
        1 => { o.u16(v as u16); process_encoding_step(&mut steps, EncodingStep::Uint16(v as u16), &packet, &mut dest) }
        2 => { o.u32(v); process_encoding_step(&mut steps, EncodingStep::Uint32(v), &packet, &mut dest) }
        _ => { kani::assume(v <= 268_435_455); o.vbi(v); process_encoding_step(&mut steps, EncodingStep::Vli(v), &packet, &mut dest) }
    };
    assert!(r.is_ok());
    assert!(dest.len() == fill + o.n && o.n <= 4 && dest.capacity() == 8 && steps.is_empty());
    let mut i = 0;
    while i < 4 { if i < o.n { assert!(dest[fill + i] == o.b[i]); } i += 1; }
    std::mem::forget(r); std::mem::forget(dest); std::mem::forget(steps);
}

// @gv props=C02 tier=quick required=yes fns=process_encoding_step,process_byte_slice_encoding
// @gv bounds="the StringSlice and BytesSlice step kinds over a 5-byte field with symbolic content, symbolic resume offset 0..5, destination capacity 8 with symbolic fill 0..4 (the encoder's guard): the unfinished remainder is re-queued at the FRONT with the right offset"
#[kani::proof]
#[kani::unwind(10)]
#[kani::stub(std::fmt::format, stub_format)]
fn c02_step_slices() {
    let data: [u8; 5] = kani::any();
    kani::assume(data[0] < 0x80 && data[1] < 0x80 && data[2] < 0x80 && data[3] < 0x80 && data[4] < 0x80);
    let packet = MqttPacket::Publish(PublishPacket { topic: s_of(&data), payload: Some(data.to_vec()), ..Default::default() });
    let mut steps: VecDeque<EncodingStep> = VecDeque::new();
    steps.push_back(EncodingStep::Uint8(0x55)); // something already queued behind
    let offset: usize = kani::any();
    kani::assume(offset <= 5);
    let fill: usize = kani::any();
    kani::assume(fill <= 4); // Encoder::encode only processes a step while at least 4 bytes are free
    let mut dest: Vec<u8> = Vec::with_capacity(8);
    let mut i = 0;
    while i < fill { dest.push(0xEE); i += 1; }
    let string_kind: bool = kani::any();
    let r = if string_kind { process_encoding_step(&mut steps, EncodingStep::StringSlice(get_topic_for_test, offset), &packet, &mut dest) }
            else { process_encoding_step(&mut steps, EncodingStep::BytesSlice(get_payload_for_test, offset), &packet, &mut dest) };
    assert!(r.is_ok());
    let space = 8 - fill;
    let remaining = 5 - offset;
    let take = if space < remaining { space } else { remaining };
    assert!(dest.len() == fill + take && dest.capacity() == 8);
    let mut i = 0;
    while i < 5 { if i < take { assert!(dest[fill + i] == data[offset + i]); } i += 1; }
    // (the real code uses the resume offset 0 as "finished", so a split that has written nothing yet -- possible only
    //  with a full buffer, which Encoder::encode's `len + 4 <= capacity` guard excludes -- is not distinguishable)
    if take < remaining && offset + take > 0 {
        assert!(steps.len() == 2);
        match steps.front().unwrap() {
            EncodingStep::StringSlice(_, o2) => assert!(string_kind && *o2 == offset + take),
            EncodingStep::BytesSlice(_, o2) => assert!(!string_kind && *o2 == offset + take),
            _ => assert!(false),
        }
    } else if take == remaining {
        assert!(steps.len() == 1);
    }
    std::mem::forget(r); std::mem::forget(dest); std::mem::forget(steps); std::mem::forget(packet);
}

// ------------------------------------------------------------------------------------------------
// H3 whole packets: real write_*_encoding_steps, flattened, against the specification layout
// ------------------------------------------------------------------------------------------------

fn ctx(v: ProtocolVersion, res: OutboundAliasResolution) -> EncodingContext { EncodingContext { outbound_alias_resolution: res, protocol_version: v } }

/// alias resolution outcome: 0 = none, 1 = alias with topic, 2 = alias, topic skipped
fn publish5_body(amode: u8, with_props: bool, with_payload: bool) {
    let t = ascii2();
    let q: u8 = kani::any();
    kani::assume(q < 3);
    let pid: u16 = kani::any();
    let (dup, retain): (bool, bool) = (kani::any(), kani::any());
    let alias: u16 = kani::any();
    let pl: [u8; 2] = kani::any();
    let (ct, rt, cd, un, uv) = (ascii2(), ascii2(), kani::any::<[u8; 2]>(), ascii2(), ascii2());
    let mei: u32 = kani::any();
    let pfi: bool = kani::any();
    let inner = PublishPacket {
        topic: s_of(&t), qos: qos_of(q), packet_id: pid, duplicate: dup, retain,
        payload: if with_payload { Some(pl.to_vec()) } else { None },
        payload_format: if with_props { Some(if pfi { PayloadFormatIndicator::Utf8 } else { PayloadFormatIndicator::Bytes }) } else { None },
        message_expiry_interval_seconds: if with_props { Some(mei) } else { None },
        response_topic: if with_props { Some(s_of(&rt)) } else { None },
        correlation_data: if with_props { Some(cd.to_vec()) } else { None },
        content_type: if with_props { Some(s_of(&ct)) } else { None },
        user_properties: if with_props { Some(vec![UserProperty { name: s_of(&un), value: s_of(&uv) }]) } else { None },
        ..Default::default()
    };
    let res = match amode { 0 => OutboundAliasResolution { skip_topic: false, alias: None }, 1 => OutboundAliasResolution { skip_topic: false, alias: Some(alias) },
                            _ => OutboundAliasResolution { skip_topic: true, alias: Some(alias) } };
    let c = ctx(ProtocolVersion::Mqtt5, res);
    let mut steps: VecDeque<EncodingStep> = VecDeque::new();
    let r = crate::mqtt::publish::write_publish_encoding_steps5(&inner, &c, &mut steps);
    assert!(r.is_ok());
    let packet = MqttPacket::Publish(inner);
    let mut got = Sink::new();
    flatten(&mut steps, &packet, &mut got, 40);
    // oracle: MQTT5 3.3
    let mut props = Sink::new();
    if with_props { props.u8(1); props.u8(if pfi { 1 } else { 0 }); props.u8(2); props.u32(mei); }
    if amode != 0 { props.u8(35); props.u16(alias); }
    if with_props { props.u8(8); props.lp(&rt); props.u8(9); props.lp(&cd); props.u8(3); props.lp(&ct); props.u8(38); props.lp(&un); props.lp(&uv); }
    let mut body = Sink::new();
    if amode == 2 { body.u16(0); } else { body.lp(&t); }
    if q > 0 { body.u16(pid); }
    body.vbi(props.n as u32);
    body.bytes(&props.b[..props.n]);
    if with_payload { body.bytes(&pl); }
    let mut want = Sink::new();
    want.u8(0x30 | (if dup { 8 } else { 0 }) | (q << 1) | (if retain { 1 } else { 0 }));
    want.vbi(body.n as u32);
    want.bytes(&body.b[..body.n]);
    kani::cover!(q == 2 && dup && retain, "all fixed-header flags set");
    assert!(same(&got, &want));
    std::mem::forget(r); std::mem::forget(steps); std::mem::forget(packet);
}

// @gv props=C02,C17 tier=quick required=yes fns=write_publish_encoding_steps5,compute_publish_packet_length_properties5,compute_publish_fixed_header_first_byte
// @gv bounds="PUBLISH/MQTT5, no alias, all optional properties present (payload format, expiry, response topic, correlation data, content type, one user property; strings of 2 symbolic bytes), 2-byte payload; symbolic QoS, id, DUP, retain"
// @gv timeout=1200 mem=12
#[kani::proof]
#[kani::unwind(45)]
#[kani::stub(std::fmt::format, stub_format)]
fn c02_publish5_full() { publish5_body(0, true, true) }

// @gv props=C02,C17 tier=quick required=yes fns=write_publish_encoding_steps5,compute_publish_packet_length_properties5
// @gv bounds="PUBLISH/MQTT5, alias resolved and topic SKIPPED (empty topic + alias property), no other property, 2-byte payload; symbolic QoS, id, flags, alias"
// @gv timeout=1200 mem=12
#[kani::proof]
#[kani::unwind(45)]
#[kani::stub(std::fmt::format, stub_format)]
fn c02_publish5_alias_skip() { publish5_body(2, false, true) }

// @gv props=C02,C17 tier=quick required=yes fns=write_publish_encoding_steps5,compute_publish_packet_length_properties5
// @gv bounds="PUBLISH/MQTT5, alias announced together with the topic, no other property, NO payload (must equal the empty payload)"
// @gv timeout=1200 mem=12
#[kani::proof]
#[kani::unwind(45)]
#[kani::stub(std::fmt::format, stub_format)]
fn c02_publish5_alias_bind_nopayload() { publish5_body(1, false, false) }
