// Read-only accessors for crate-private configuration fields, compiled into the SCRATCH copy of gneiss-mqtt only
// (cfg(kani)), so that harnesses living in another crate (gneiss-mqtt-aws) can compare whole option structures.
use crate::client::config::{ConnectOptions, MqttClientOptions, OfflineQueuePolicy, ProtocolMode, PostReconnectQueueDrainPolicy, RejoinSessionPolicy};
use std::time::Duration;

pub struct ConnectView<'a> {
    pub keep_alive: Option<u16>, pub rejoin: RejoinSessionPolicy, pub client_id: &'a Option<String>, pub username: &'a Option<String>, pub password: &'a Option<Vec<u8>>,
    pub session_expiry: Option<u32>, pub request_response_information: Option<bool>, pub request_problem_information: Option<bool>,
    pub receive_maximum: Option<u16>, pub topic_alias_maximum: Option<u16>, pub maximum_packet_size: Option<u32>, pub will_delay: Option<u32>,
    pub has_will: bool, pub user_property_count: usize,
}

pub fn connect_view(o: &ConnectOptions) -> ConnectView<'_> {
    ConnectView {
        keep_alive: o.keep_alive_interval_seconds, rejoin: o.rejoin_session_policy, client_id: &o.client_id, username: &o.username, password: &o.password,
        session_expiry: o.session_expiry_interval_seconds, request_response_information: o.request_response_information, request_problem_information: o.request_problem_information,
        receive_maximum: o.receive_maximum, topic_alias_maximum: o.topic_alias_maximum, maximum_packet_size: o.maximum_packet_size_bytes, will_delay: o.will_delay_interval_seconds,
        has_will: o.will.is_some(), user_property_count: match &o.user_properties { Some(v) => v.len(), None => 0 },
    }
}

pub struct ClientView {
    pub offline_queue_policy: OfflineQueuePolicy, pub connect_timeout: Duration, pub ping_timeout: Duration, pub has_resolver_factory: bool,
    pub base_reconnect: Duration, pub max_reconnect: Duration, pub stability: Duration,
    pub protocol_mode: ProtocolMode, pub drain: Option<PostReconnectQueueDrainPolicy>, pub retries: Option<u32>,
}

pub fn client_view(o: &MqttClientOptions) -> ClientView {
    ClientView {
        offline_queue_policy: o.offline_queue_policy, connect_timeout: o.connect_timeout, ping_timeout: o.ping_timeout, has_resolver_factory: o.outbound_alias_resolver_factory.is_some(),
        base_reconnect: o.reconnect_options.base_reconnect_period, max_reconnect: o.reconnect_options.max_reconnect_period, stability: o.reconnect_options.reconnect_stability_reset_period,
        protocol_mode: o.protocol_mode, drain: o.post_reconnect_queue_drain_policy, retries: o.max_interrupted_retries,
    }
}

pub fn set_connect_scalars(o: &mut ConnectOptions, keep_alive: Option<u16>, session_expiry: Option<u32>, receive_maximum: Option<u16>, topic_alias_maximum: Option<u16>, maximum_packet_size: Option<u32>) {
    o.keep_alive_interval_seconds = keep_alive; o.session_expiry_interval_seconds = session_expiry; o.receive_maximum = receive_maximum;
    o.topic_alias_maximum = topic_alias_maximum; o.maximum_packet_size_bytes = maximum_packet_size;
}
