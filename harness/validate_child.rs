// @gv-module parent=gneiss-mqtt/src/validate.rs name=gv_validate pkg=gneiss-mqtt
//
// Child module of validate.rs. Properties: C16 (static and connection-dependent validation), C04 (first transmission DUP=0).
use super::{validate_packet_outbound, validate_packet_outbound_internal, OutboundValidationContext, is_valid_topic,
    compute_topic_filter_properties, is_valid_topic_filter_internal};
use crate::mqtt::{MqttPacket, PublishPacket, SubscribePacket, UnsubscribePacket, DisconnectPacket, QualityOfService, UserProperty, Subscription};
use crate::mqtt::publish::{validate_publish_packet_outbound, validate_publish_packet_outbound_internal};
use crate::mqtt::subscribe::{validate_subscribe_packet_outbound, validate_subscribe_packet_outbound_internal};
use crate::mqtt::unsubscribe::{validate_unsubscribe_packet_outbound, validate_unsubscribe_packet_outbound_internal};
use crate::mqtt::disconnect::{validate_disconnect_packet_outbound, validate_disconnect_packet_outbound_internal};
use crate::client::NegotiatedSettings;
use crate::client::config::ConnectOptions;
use crate::alias::OutboundAliasResolution;

include!("common.rs");

/// String of symbolic LENGTH 0..=max (content irrelevant to the length rules).
fn sym_len_string(max: usize) -> String {
    let n: usize = kani::any();
    kani::assume(n <= max);
    unsafe { String::from_utf8_unchecked(vec![0u8; n]) }
}

fn sym_len_bytes(max: usize) -> Vec<u8> {
    let n: usize = kani::any();
    kani::assume(n <= max);
    vec![0u8; n]
}

/// Topic of 0..=2 symbolic ASCII bytes (the validator scans its content).
fn short_topic() -> (String, usize, [u8; 2]) {
    let tl: usize = kani::any();
    kani::assume(tl <= 2);
    let tb: [u8; 2] = kani::any();
    kani::assume(tb[0] < 0x80 && tb[1] < 0x80);
    (unsafe { String::from_utf8_unchecked(tb[..tl].to_vec()) }, tl, tb)
}

fn oracle_topic_ok(tl: usize, tb: &[u8; 2]) -> bool {
    let mut ok = tl >= 1;
    let mut i = 0;
    while i < tl { if tb[i] == b'#' || tb[i] == b'+' { ok = false; } i += 1; }
    ok
}

fn qos_of(q: u8) -> QualityOfService {
    match q { 0 => QualityOfService::AtMostOnce, 1 => QualityOfService::AtLeastOnce, _ => QualityOfService::ExactlyOnce }
}

const MAXLEN: usize = 65535;

// @gv props=C16,C04 tier=quick required=yes fns=validate_publish_packet_outbound,validate_user_properties,validate_string_length,is_valid_topic
// @gv bounds="PUBLISH with topic of 0..2 symbolic ASCII bytes, one user property with name and value of symbolic length 0..70000, content type of symbolic length 0..70000, symbolic packet id / DUP / QoS / retain / topic alias option"
// @gv timeout=900
#[kani::proof]
#[kani::unwind(5)]
#[kani::stub(std::fmt::format, stub_format)]
fn c16_static_publish_props() {
    let (topic, tl, tb) = short_topic();
    let ct = sym_len_string(70000);
    let name = sym_len_string(70000);
    let value = sym_len_string(70000);
    let (cl, nl, vl) = (ct.len(), name.len(), value.len());
    let pid: u16 = kani::any();
    let dup: bool = kani::any();
    let alias: Option<u16> = if kani::any() { Some(kani::any()) } else { None };
    let q: u8 = kani::any();
    kani::assume(q < 3);
    let packet = PublishPacket {
        topic, qos: qos_of(q), packet_id: pid, duplicate: dup, retain: kani::any(), topic_alias: alias,
        content_type: Some(ct),
        user_properties: Some(vec![UserProperty { name, value }]),
        ..Default::default()
    };
    let r = validate_publish_packet_outbound(&packet);
    let expect = pid == 0 && !dup && oracle_topic_ok(tl, &tb) && alias != Some(0) && cl <= MAXLEN && nl <= MAXLEN && vl <= MAXLEN;
    kani::cover!(vl > MAXLEN && nl <= MAXLEN, "user-property value above 65535 bytes");
    kani::cover!(expect, "valid publish accepted");
    // accepted iff it satisfies every static rule: no under- and no over-rejection; a first transmission has DUP=0 and no id
    assert!(r.is_ok() == expect);
    std::mem::forget(r);
    std::mem::forget(packet);
}

// @gv props=C16 tier=quick required=yes fns=validate_publish_packet_outbound,validate_optional_binary_length,validate_optional_string_length,is_valid_topic
// @gv bounds="PUBLISH with a valid 1-byte topic, response topic of 0..2 symbolic ASCII bytes or of symbolic length 65536..70000 or absent, correlation data of symbolic length 0..70000, subscription identifiers present or absent, no user properties"
// @gv timeout=900
#[kani::proof]
#[kani::unwind(5)]
#[kani::stub(std::fmt::format, stub_format)]
fn c16_static_publish_optionals() {
    let cd = sym_len_bytes(70000);
    let cdl = cd.len();
    let (rt, rl, rb) = short_topic();
    let rmode: u8 = kani::any();
    kani::assume(rmode < 3);
    let long_n: usize = kani::any();
    kani::assume(long_n > MAXLEN && long_n <= 70000);
    let response_topic = match rmode { 0 => None, 1 => Some(rt), _ => Some(unsafe { String::from_utf8_unchecked(vec![b'a'; long_n]) }) };
    let has_sub_ids: bool = kani::any();
    let packet = PublishPacket {
        topic: "t".to_string(), qos: QualityOfService::AtLeastOnce,
        response_topic,
        correlation_data: Some(cd),
        subscription_identifiers: if has_sub_ids { Some(vec![1]) } else { None },
        ..Default::default()
    };
    let r = validate_publish_packet_outbound(&packet);
    let rt_ok = match rmode { 0 => true, 1 => oracle_topic_ok(rl, &rb), _ => false };
    let expect = rt_ok && cdl <= MAXLEN && !has_sub_ids;
    kani::cover!(rmode == 2, "over-long response topic");
    kani::cover!(cdl == MAXLEN && expect, "correlation data of exactly 65535 bytes accepted");
    assert!(r.is_ok() == expect);
    std::mem::forget(r);
    std::mem::forget(packet);
}

fn subscribe_static_body(n_subs: usize, with_prop: bool) {
    let pid: u16 = kani::any();
    let sid: Option<u32> = if kani::any() { Some(kani::any()) } else { None };
    let name = sym_len_string(70000);
    let value = sym_len_string(70000);
    let (nl, vl) = (name.len(), value.len());
    let mut subs = Vec::new();
    if n_subs >= 1 { subs.push(Subscription { topic_filter: "a".to_string(), qos: QualityOfService::AtLeastOnce, ..Default::default() }); }
    if n_subs >= 2 { subs.push(Subscription { topic_filter: "b/#".to_string(), qos: QualityOfService::AtMostOnce, ..Default::default() }); }
    let packet = SubscribePacket {
        packet_id: pid, subscriptions: subs, subscription_identifier: sid,
        user_properties: if with_prop { Some(vec![UserProperty { name, value }]) } else { None },
        ..Default::default()
    };
    let r = validate_subscribe_packet_outbound(&packet);
    // MQTT5 3.8.2.1.2: the Subscription Identifier can have the value of 1 to 268,435,455; 0 is a protocol error
    let sid_ok = match sid { None => true, Some(v) => v >= 1 && v <= 268_435_455 };
    let expect = pid == 0 && n_subs >= 1 && sid_ok && (!with_prop || (nl <= MAXLEN && vl <= MAXLEN));
    kani::cover!(expect || n_subs == 0, "valid subscribe accepted");
    kani::cover!(!sid_ok, "subscription identifier out of range");
    assert!(r.is_ok() == expect);
    std::mem::forget(r);
    std::mem::forget(packet);
}

// @gv props=C16 tier=quick required=yes fns=validate_subscribe_packet_outbound,validate_user_properties
// @gv bounds="SUBSCRIBE with one subscription, symbolic packet id, subscription identifier absent or any u32, one user property with symbolic name/value lengths 0..70000"
// @gv timeout=900
#[kani::proof]
#[kani::unwind(5)]
#[kani::stub(std::fmt::format, stub_format)]
fn c16_static_subscribe_one() { subscribe_static_body(1, true) }

// @gv props=C16 tier=quick required=yes fns=validate_subscribe_packet_outbound
// @gv bounds="SUBSCRIBE with an EMPTY subscription list (must be rejected), symbolic id fields, no user property"
#[kani::proof]
#[kani::unwind(5)]
#[kani::stub(std::fmt::format, stub_format)]
fn c16_static_subscribe_empty() { subscribe_static_body(0, false) }

// @gv props=C16 tier=thorough required=no fns=validate_subscribe_packet_outbound
// @gv bounds="SUBSCRIBE with two subscriptions, no user property"
#[kani::proof]
#[kani::unwind(5)]
#[kani::stub(std::fmt::format, stub_format)]
fn c16_static_subscribe_two() { subscribe_static_body(2, false) }

fn unsubscribe_static_body(n: usize, with_prop: bool) {
    let pid: u16 = kani::any();
    let name = sym_len_string(70000);
    let value = sym_len_string(70000);
    let (nl, vl) = (name.len(), value.len());
    let mut filters = Vec::new();
    if n >= 1 { filters.push("a".to_string()); }
    if n >= 2 { filters.push("b/+".to_string()); }
    let packet = UnsubscribePacket { packet_id: pid, topic_filters: filters,
        user_properties: if with_prop { Some(vec![UserProperty { name, value }]) } else { None }, ..Default::default() };
    let r = validate_unsubscribe_packet_outbound(&packet);
    let expect = pid == 0 && n >= 1 && (!with_prop || (nl <= MAXLEN && vl <= MAXLEN));
    kani::cover!(expect || n == 0, "valid unsubscribe accepted");
    assert!(r.is_ok() == expect);
    std::mem::forget(r);
    std::mem::forget(packet);
}

// @gv props=C16 tier=quick required=yes fns=validate_unsubscribe_packet_outbound,validate_user_properties
// @gv bounds="UNSUBSCRIBE with one filter, symbolic packet id, one user property with symbolic name/value lengths 0..70000"
// @gv timeout=900
#[kani::proof]
#[kani::unwind(5)]
#[kani::stub(std::fmt::format, stub_format)]
fn c16_static_unsubscribe_one() { unsubscribe_static_body(1, true) }

// @gv props=C16 tier=quick required=yes fns=validate_unsubscribe_packet_outbound
// @gv bounds="UNSUBSCRIBE with an EMPTY filter list (must be rejected)"
#[kani::proof]
#[kani::unwind(5)]
#[kani::stub(std::fmt::format, stub_format)]
fn c16_static_unsubscribe_empty() { unsubscribe_static_body(0, false) }

// @gv props=C16 tier=quick required=yes fns=validate_disconnect_packet_outbound,validate_user_properties,validate_optional_string_length
// @gv bounds="DISCONNECT with reason string and server reference of symbolic length 0..70000 (present/absent) and one user property with symbolic name/value lengths"
// @gv timeout=900
#[kani::proof]
#[kani::unwind(5)]
#[kani::stub(std::fmt::format, stub_format)]
fn c16_static_disconnect() {
    let rs = sym_len_string(70000);
    let sr = sym_len_string(70000);
    let name = sym_len_string(70000);
    let value = sym_len_string(70000);
    let (rl, sl, nl, vl) = (rs.len(), sr.len(), name.len(), value.len());
    let has_rs: bool = kani::any();
    let has_sr: bool = kani::any();
    let packet = DisconnectPacket {
        reason_string: if has_rs { Some(rs) } else { None },
        server_reference: if has_sr { Some(sr) } else { None },
        user_properties: Some(vec![UserProperty { name, value }]),
        ..Default::default()
    };
    let r = validate_disconnect_packet_outbound(&packet);
    let expect = (!has_rs || rl <= MAXLEN) && (!has_sr || sl <= MAXLEN) && nl <= MAXLEN && vl <= MAXLEN;
    kani::cover!(expect, "valid disconnect accepted");
    assert!(r.is_ok() == expect);
    std::mem::forget(r);
    std::mem::forget(packet);
}

// ---- connection-dependent limits (last-chance validation when an operation is dequeued) ----

fn any_settings() -> NegotiatedSettings {
    NegotiatedSettings {
        maximum_qos: qos_of(kani::any::<u8>() % 3),
        retain_available: kani::any(),
        maximum_packet_size_to_server: kani::any(),
        wildcard_subscriptions_available: kani::any(),
        shared_subscriptions_available: kani::any(),
        subscription_identifiers_available: kani::any(),
        ..Default::default()
    }
}

fn vbi_size(n: usize) -> usize { if n < 128 { 1 } else if n < 16384 { 2 } else if n < 2097152 { 3 } else { 4 } }

// @gv props=C16 tier=quick required=yes fns=validate_publish_packet_outbound_internal,compute_publish_packet_length_properties5
// @gv bounds="PUBLISH topic 'ab', payload of symbolic length 0..20000, symbolic QoS / packet id / retain; alias resolution none / alias / alias+skip-topic (symbolic); symbolic negotiated maximum packet size (any u32), maximum QoS, retain availability"
// @gv timeout=900
#[kani::proof]
#[kani::unwind(4)]
#[kani::stub(std::fmt::format, stub_format)]
fn c16_dynamic_publish() {
    let settings = any_settings();
    let q: u8 = kani::any();
    kani::assume(q < 3);
    let pid: u16 = kani::any();
    let retain: bool = kani::any();
    let plen: usize = kani::any();
    kani::assume(plen <= 20000);
    let packet = PublishPacket { topic: "ab".to_string(), qos: qos_of(q), packet_id: pid, retain, payload: Some(vec![0u8; plen]), ..Default::default() };
    let amode: u8 = kani::any();
    kani::assume(amode < 3);
    let resolution = match amode { 0 => OutboundAliasResolution { skip_topic: false, alias: None }, 1 => OutboundAliasResolution { skip_topic: false, alias: Some(kani::any()) },
                                   _ => OutboundAliasResolution { skip_topic: true, alias: Some(kani::any()) } };
    let ctx = OutboundValidationContext { negotiated_settings: Some(&settings), connect_options: None, outbound_alias_resolution: Some(resolution) };
    let r = validate_publish_packet_outbound_internal(&packet, &ctx);
    // oracle (MQTT5 3.3): 1 + VBI(remaining) + remaining; remaining = 2 + topic (omitted with skip-topic) [+ 2 id] + VBI(props) + props + payload; alias property = 3 bytes
    let topic_bytes = if amode == 2 { 0 } else { 2 };
    let props = if amode == 0 { 0 } else { 3 };
    let remaining = 2 + topic_bytes + (if q > 0 { 2 } else { 0 }) + 1 + props + plen;
    let total = 1 + vbi_size(remaining) + remaining;
    let mq = match settings.maximum_qos { QualityOfService::AtMostOnce => 0u8, QualityOfService::AtLeastOnce => 1, _ => 2 };
    let expect = (total as u64) <= settings.maximum_packet_size_to_server as u64 && !(q > 0 && pid == 0) && !(retain && !settings.retain_available) && q <= mq;
    kani::cover!(total as u32 == settings.maximum_packet_size_to_server && expect, "packet exactly at the server's maximum is accepted");
    kani::cover!(remaining >= 16384 && expect, "remaining length needs a three-byte VBI");
    assert!(r.is_ok() == expect);
    std::mem::forget(r);
    std::mem::forget(packet);
}

fn subscribe_dynamic_body(filter: &str, shared: bool, wildcard: bool) {
    let settings = any_settings();
    let pid: u16 = kani::any();
    let no_local: bool = kani::any();
    let sid: Option<u32> = if kani::any() { Some(1 + (kani::any::<u32>() % 268_435_455)) } else { None };
    let packet = SubscribePacket {
        packet_id: pid, subscription_identifier: sid,
        subscriptions: vec![Subscription { topic_filter: filter.to_string(), qos: QualityOfService::AtLeastOnce, no_local, ..Default::default() }],
        ..Default::default()
    };
    // KNOWN FINDING (known_findings.json, C16-subid-availability): the CONNACK flag "subscription identifiers available" is
    // never consulted. That input region is excluded here and asserted on its own in c16_dynamic_subscribe_subid_unavailable,
    // so that any OTHER deviation in this harness is still reported as a violation.
    kani::assume(sid.is_none() || settings.subscription_identifiers_available);
    let ctx = OutboundValidationContext { negotiated_settings: Some(&settings), connect_options: None, outbound_alias_resolution: None };
    let r = validate_subscribe_packet_outbound_internal(&packet, &ctx);
    // oracle (MQTT5 3.8): remaining = 2 + VBI(props) + props + (2 + filter + 1); subscription identifier property = 1 + VBI(id)
    let idsz = match sid { None => 0, Some(v) => 1 + vbi_size(v as usize) };
    let remaining = 2 + 1 + idsz + 2 + filter.len() + 1;
    let total = 1 + vbi_size(remaining) + remaining;
    let expect = (total as u64) <= settings.maximum_packet_size_to_server as u64 && pid != 0
        && !(wildcard && !settings.wildcard_subscriptions_available)
        && !(shared && (!settings.shared_subscriptions_available || no_local))
        && !(sid.is_some() && !settings.subscription_identifiers_available);
    kani::cover!(expect, "valid subscribe passes the connection-dependent checks");
    kani::cover!(sid.is_some() && expect, "subscribe with a subscription identifier accepted");
    assert!(r.is_ok() == expect);
    std::mem::forget(r);
    std::mem::forget(packet);
}

// @gv props=C16 tier=quick required=yes fns=validate_subscribe_packet_outbound_internal,is_valid_topic_filter_internal,compute_topic_filter_properties
// @gv bounds="SUBSCRIBE with the plain filter 'a/b'; symbolic packet id, no-local flag, subscription identifier absent or in 1..268435455; all CONNACK capability combinations and any maximum packet size"
// @gv timeout=1200 mem=5
#[kani::proof]
#[kani::unwind(8)]
#[kani::stub(std::fmt::format, stub_format)]
fn c16_dynamic_subscribe_plain() { subscribe_dynamic_body("a/b", false, false) }

// @gv props=C16 tier=quick required=yes fns=validate_subscribe_packet_outbound_internal,is_valid_topic_filter_internal,compute_topic_filter_properties
// @gv bounds="as c16_dynamic_subscribe_plain with the wildcard filter 'a/#'"
// @gv timeout=1200 mem=5
#[kani::proof]
#[kani::unwind(8)]
#[kani::stub(std::fmt::format, stub_format)]
fn c16_dynamic_subscribe_wildcard() { subscribe_dynamic_body("a/#", false, true) }

// @gv props=C16 tier=quick required=yes fns=validate_subscribe_packet_outbound_internal,is_valid_topic_filter_internal,compute_topic_filter_properties
// @gv bounds="as c16_dynamic_subscribe_plain with the shared filter '$share/g/t'"
// @gv timeout=1200 mem=5
#[kani::proof]
#[kani::unwind(12)]
#[kani::stub(std::fmt::format, stub_format)]
fn c16_dynamic_subscribe_shared() { subscribe_dynamic_body("$share/g/t", true, false) }

// @gv props=C16 tier=quick required=yes fns=validate_subscribe_packet_outbound_internal
// @gv bounds="SUBSCRIBE 'a/b' carrying a subscription identifier (any value in 1..268435455) on a connection whose CONNACK said subscription identifiers are NOT available; everything else permissive"
// @gv finding=C16-subid-availability
#[kani::proof]
#[kani::unwind(8)]
#[kani::stub(std::fmt::format, stub_format)]
fn c16_dynamic_subscribe_subid_unavailable() {
    let mut settings = any_settings();
    settings.subscription_identifiers_available = false;
    settings.maximum_packet_size_to_server = 268_435_455;
    let sid = 1 + (kani::any::<u32>() % 268_435_455);
    let packet = SubscribePacket {
        packet_id: 1, subscription_identifier: Some(sid),
        subscriptions: vec![Subscription { topic_filter: "a/b".to_string(), qos: QualityOfService::AtLeastOnce, ..Default::default() }],
        ..Default::default()
    };
    let ctx = OutboundValidationContext { negotiated_settings: Some(&settings), connect_options: None, outbound_alias_resolution: None };
    let r = validate_subscribe_packet_outbound_internal(&packet, &ctx);
    assert!(r.is_err(), "gv: a SUBSCRIBE carrying a subscription identifier must be rejected when the server announced subscription identifiers unavailable");
    std::mem::forget(r);
    std::mem::forget(packet);
}

// @gv props=C16 tier=quick required=yes fns=validate_unsubscribe_packet_outbound_internal,is_valid_topic_filter_internal
// @gv bounds="UNSUBSCRIBE with the filter '+/x'; symbolic packet id; all CONNACK capability combinations and any maximum packet size"
// @gv timeout=1200 mem=5
#[kani::proof]
#[kani::unwind(8)]
#[kani::stub(std::fmt::format, stub_format)]
fn c16_dynamic_unsubscribe() {
    let settings = any_settings();
    let pid: u16 = kani::any();
    let packet = UnsubscribePacket { packet_id: pid, topic_filters: vec!["+/x".to_string()], ..Default::default() };
    let ctx = OutboundValidationContext { negotiated_settings: Some(&settings), connect_options: None, outbound_alias_resolution: None };
    let r = validate_unsubscribe_packet_outbound_internal(&packet, &ctx);
    let remaining = 2 + 1 + 2 + 3;
    let total = 1 + 1 + remaining;
    let expect = (total as u64) <= settings.maximum_packet_size_to_server as u64 && pid != 0 && settings.wildcard_subscriptions_available;
    kani::cover!(expect, "valid unsubscribe passes");
    assert!(r.is_ok() == expect);
    std::mem::forget(r);
    std::mem::forget(packet);
}

// @gv props=C16 tier=quick required=yes fns=validate_disconnect_packet_outbound_internal
// @gv bounds="DISCONNECT with session expiry absent or any u32 against a CONNECT session expiry absent or any u32; any maximum packet size"
// @gv timeout=900
#[kani::proof]
#[kani::unwind(5)]
#[kani::stub(std::fmt::format, stub_format)]
fn c16_dynamic_disconnect() {
    let settings = any_settings();
    let mut connect = ConnectOptions::builder().build();
    let cse: Option<u32> = if kani::any() { Some(kani::any()) } else { None };
    connect.session_expiry_interval_seconds = cse;
    let dse: Option<u32> = if kani::any() { Some(kani::any()) } else { None };
    let packet = DisconnectPacket { session_expiry_interval_seconds: dse, ..Default::default() };
    let ctx = OutboundValidationContext { negotiated_settings: Some(&settings), connect_options: Some(&connect), outbound_alias_resolution: None };
    let r = validate_disconnect_packet_outbound_internal(&packet, &ctx);
    // MQTT5 3.14.2.2.2: a non-zero session expiry in DISCONNECT is a protocol error if it was zero in CONNECT
    let remaining = if dse.is_some() { 1 + 1 + 5 } else { 0 };   // reason code + property length + property; the minimal form omits both
    let total_min = 1 + 1 + remaining;
    let violates_expiry = cse.unwrap_or(0) == 0 && dse.unwrap_or(0) > 0;
    kani::cover!(violates_expiry, "session expiry raised from zero");
    if violates_expiry { assert!(r.is_err()); }
    if !violates_expiry && settings.maximum_packet_size_to_server as u64 >= (total_min + 2) as u64 { assert!(r.is_ok()); }
    std::mem::forget(r);
    std::mem::forget(packet);
    std::mem::forget(connect);
}

// ---- topic grammar (stretch): separator positions are fixed per harness, the other characters are symbolic ----

fn filter_grammar_body(pattern: &[u8]) {
    // pattern bytes: b'/' is a fixed separator, b'?' a symbolic character from {a, +, #}
    let mut bytes = [0u8; 5];
    let n = pattern.len();
    let mut i = 0;
    while i < n {
        bytes[i] = if pattern[i] == b'?' { match kani::any::<u8>() % 3 { 0 => b'a', 1 => b'+', _ => b'#' } } else { pattern[i] };
        i += 1;
    }
    let s = unsafe { String::from_utf8_unchecked(bytes[..n].to_vec()) };
    let p = compute_topic_filter_properties(&s);
    // oracle (MQTT 4.7.1): '+' and '#' must occupy a whole level; '#' only as the last level
    let mut valid = n > 0;
    let mut wildcard = false;
    let mut start = 0;
    let mut i = 0;
    while i <= n {
        if i == n || bytes[i] == b'/' {
            let len = i - start;
            let mut has_w = false;
            let mut j = start;
            while j < i { if bytes[j] == b'+' || bytes[j] == b'#' { has_w = true; } j += 1; }
            if has_w { wildcard = true; if len != 1 { valid = false; } if bytes[start] == b'#' && i != n { valid = false; } }
            start = i + 1;
        }
        i += 1;
    }
    kani::cover!(valid && wildcard, "valid wildcard filter");
    kani::cover!(!valid, "invalid filter");
    assert!(p.is_valid == valid);
    if valid { assert!(p.has_wildcard == wildcard); assert!(!p.is_shared); }
    assert!(is_valid_topic(&s) == (n > 0 && !wildcard));
    std::mem::forget(s);
}

// @gv props=C16 tier=thorough required=no fns=compute_topic_filter_properties,is_valid_topic
// @gv bounds="filters of the shape x/x (two single-character levels, characters symbolic over {a,+,#})"
// @gv timeout=1800 mem=16
#[kani::proof]
#[kani::unwind(8)]
fn c16_grammar_x_x() { filter_grammar_body(b"?/?") }

// @gv props=C16 tier=thorough required=no fns=compute_topic_filter_properties,is_valid_topic
// @gv bounds="filters of the shape xx (one two-character level, characters symbolic over {a,+,#})"
// @gv timeout=1800 mem=16
#[kani::proof]
#[kani::unwind(8)]
fn c16_grammar_xx() { filter_grammar_body(b"??") }

// @gv props=C16 tier=thorough required=no fns=compute_topic_filter_properties,is_valid_topic
// @gv bounds="filters of the shape x/x/x"
// @gv timeout=1800 mem=16
#[kani::proof]
#[kani::unwind(10)]
fn c16_grammar_x_x_x() { filter_grammar_body(b"?/?/?") }
