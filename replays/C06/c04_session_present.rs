// Concrete counterexample produced by Kani/CBMC for harness protocol::gv_protocol::c04_session_present (property C06).
// Replay: ./check C06 --replay /verif/replays/C06/c04_session_present.rs
// module: protocol_child.rs
// assertion: "assertion failed: st.allocated_packet_ids.get(&p1) == Some(&3)"
#[test]
fn kani_concrete_playback_c04_session_present_15092131624186400814() {
    let concrete_vals: Vec<Vec<u8>> = vec![
        // 32768
        vec![0, 128],
        // 16384
        vec![0, 64],
        // 0
        vec![0],
    ];
    kani::concrete_playback_run(concrete_vals, c04_session_present);
}
