// Concrete counterexample produced by Kani/CBMC for harness protocol::gv_protocol::c07_connack_failing (property C07).
// Replay: ./check C07 --replay /verif/replays/C07/c07_connack_failing.rs
// module: protocol_child.rs
// assertion: "assertion failed: st.state == ProtocolStateType::PendingConnack && st.current_settings.is_none()
#[test]
fn kani_concrete_playback_c07_connack_failing_6904740573489458945() {
    let concrete_vals: Vec<Vec<u8>> = vec![
        // 0
        vec![0],
    ];
    kani::concrete_playback_run(concrete_vals, c07_connack_failing);
}
