// Concrete counterexample produced by Kani/CBMC for harness protocol::gv_protocol::c05_pubrel_step_k2 (property C05).
// Replay: ./check C05 --replay /verif/replays/C05/c05_pubrel_step_k2.rs
// module: protocol_child.rs
// cover: "PUBREL releases a known id"
#[test]
fn kani_concrete_playback_c05_pubrel_step_k2_4088327671144257434() {
    let concrete_vals: Vec<Vec<u8>> = vec![
        // 1
        vec![1],
        // 1
        vec![1, 0],
        // 32769
        vec![1, 128],
        // 1
        vec![1, 0],
    ];
    kani::concrete_playback_run(concrete_vals, c05_pubrel_step_k2);
}

// cover: "PUBREL for an unknown id"
#[test]
fn kani_concrete_playback_c05_pubrel_step_k2_17928333370335101266() {
    let concrete_vals: Vec<Vec<u8>> = vec![
        // 1
        vec![1],
        // 16380
        vec![252, 63],
        // 49153
        vec![1, 192],
        // 49155
        vec![3, 192],
    ];
    kani::concrete_playback_run(concrete_vals, c05_pubrel_step_k2);
}
