// Shared by the encode harness modules (include!d): byte sink, oracle helpers, step-list flattening.
const OUT: usize = 96;

/// byte sink for the oracle and for the flattened step list
struct Sink { b: [u8; OUT], n: usize }
impl Sink {
    fn new() -> Sink { Sink { b: [0; OUT], n: 0 } }
    fn u8(&mut self, v: u8) { self.b[self.n] = v; self.n += 1; }
    fn u16(&mut self, v: u16) { self.u8((v >> 8) as u8); self.u8(v as u8); }
    fn u32(&mut self, v: u32) { self.u16((v >> 16) as u16); self.u16(v as u16); }
    /// Variable Byte Integer (MQTT 1.5.5): 7 data bits per byte, least significant group first, continuation bit 0x80
    fn vbi(&mut self, v: u32) {
        if v < 128 { self.u8(v as u8); }
        else if v < 16384 { self.u8((v & 127) as u8 | 128); self.u8((v >> 7) as u8); }
        else if v < 2097152 { self.u8((v & 127) as u8 | 128); self.u8(((v >> 7) & 127) as u8 | 128); self.u8((v >> 14) as u8); }
        else { self.u8((v & 127) as u8 | 128); self.u8(((v >> 7) & 127) as u8 | 128); self.u8(((v >> 14) & 127) as u8 | 128); self.u8((v >> 21) as u8); }
    }
    fn bytes(&mut self, s: &[u8]) { let mut i = 0; while i < s.len() { self.u8(s[i]); i += 1; } }
    fn lp(&mut self, s: &[u8]) { self.u16(s.len() as u16); self.bytes(s); }
}

fn vbi_len(v: usize) -> usize { if v < 128 { 1 } else if v < 16384 { 2 } else if v < 2097152 { 3 } else { 4 } }

/// One item of the wire layout the SPECIFICATION prescribes for a packet: a fixed-width integer, a Variable Byte
/// Integer, or the raw bytes of a named packet field. `c02_step_*` prove that the real step processor emits exactly
/// the big-endian bytes / VBI / field bytes for the corresponding step kind, so comparing the step list the real
/// `write_*_encoding_steps` produces against this layout item by item (instead of byte by byte) is the same claim,
/// without symbolic-index byte buffers (measured: the byte-level comparison ran out of memory).
#[derive(Copy, Clone)]
struct Item { kind: u8, val: u32, field: u8, idx: usize, size: usize, prop: bool }
const K_U8: u8 = 0; const K_U16: u8 = 1; const K_U32: u8 = 2; const K_VBI: u8 = 3; const K_FIELD: u8 = 4;

struct Layout { it: [Item; 48], n: usize, in_props: bool }
impl Layout {
    fn new() -> Layout { Layout { it: [Item { kind: 0, val: 0, field: 0, idx: 0, size: 0, prop: false }; 48], n: 0, in_props: false } }
    fn push(&mut self, kind: u8, val: u32, field: u8, idx: usize, size: usize) { self.it[self.n] = Item { kind, val, field, idx, size, prop: self.in_props }; self.n += 1; }
    fn u8(&mut self, v: u8) { self.push(K_U8, v as u32, 0, 0, 1) }
    fn u16(&mut self, v: u16) { self.push(K_U16, v as u32, 0, 0, 2) }
    fn u32(&mut self, v: u32) { self.push(K_U32, v, 0, 0, 4) }
    fn vbi(&mut self, v: u32) { self.push(K_VBI, v, 0, 0, vbi_len(v as usize)) }
    /// raw bytes of a field (no length prefix)
    fn raw(&mut self, field: u8, idx: usize, len: usize) { self.push(K_FIELD, 0, field, idx, len) }
    /// UTF-8 string / binary data: two-byte length prefix + bytes (MQTT 1.5.4 / 1.5.6)
    fn lp(&mut self, field: u8, idx: usize, len: usize) { self.u16(len as u16); self.raw(field, idx, len) }
    /// placeholder for a length that is filled in from the items that follow
    fn hole(&mut self) -> usize { self.push(K_VBI, 0, 0, 0, 0); self.n - 1 }
    fn fill(&mut self, at: usize, v: usize) { self.it[at].val = v as u32; self.it[at].size = vbi_len(v); }
    fn bytes_from(&self, from: usize, only_props: bool) -> usize {
        let mut t = 0; let mut i = from;
        while i < self.n { if !only_props || self.it[i].prop { t += self.it[i].size; } i += 1; }
        t
    }
}

/// Compares the produced step list with the layout; `field_of` names the field a slice step refers to by comparing the
/// stored function pointer with the packet module's private accessors (no call through the pointer).
fn check_steps<F: Fn(&EncodingStep) -> (u8, usize)>(steps: &mut VecDeque<EncodingStep>, want: &Layout, field_of: F) {
    let mut i = 0;
    while let Some(step) = steps.pop_front() {
        assert!(i < want.n, "gv: more steps than the layout has items");
        let w = want.it[i];
        match &step {
            EncodingStep::Uint8(v) => assert!(w.kind == K_U8 && w.val == *v as u32, "gv: Uint8 step differs from the specified layout"),
            EncodingStep::Uint16(v) => assert!(w.kind == K_U16 && w.val == *v as u32, "gv: Uint16 step differs from the specified layout"),
            EncodingStep::Uint32(v) => assert!(w.kind == K_U32 && w.val == *v, "gv: Uint32 step differs from the specified layout"),
            EncodingStep::Vli(v) => assert!(w.kind == K_VBI && w.val == *v, "gv: variable-byte-integer step differs from the specified layout"),
            EncodingStep::StringSlice(_, off) | EncodingStep::BytesSlice(_, off) => {
                let (f, idx) = field_of(&step);
                assert!(*off == 0 && w.kind == K_FIELD && w.field == f && w.idx == idx, "gv: field step differs from the specified layout");
            }
            EncodingStep::IndexedString(_, _, off) | EncodingStep::UserPropertyName(_, _, off) | EncodingStep::UserPropertyValue(_, _, off) => {
                let (f, idx) = field_of(&step);
                assert!(*off == 0 && w.kind == K_FIELD && w.field == f && w.idx == idx, "gv: indexed field step differs from the specified layout");
            }
        }
        i += 1;
        if i >= 48 { break; }
    }
    assert!(i == want.n, "gv: fewer steps than the layout has items");
    assert!(steps.is_empty());
}

fn same(a: &Sink, b: &Sink) -> bool {
    if a.n != b.n { return false; }
    let mut i = 0;
    while i < OUT { if i < a.n && a.b[i] != b.b[i] { return false; } i += 1; }
    true
}

fn ascii2() -> [u8; 2] { let b: [u8; 2] = kani::any(); kani::assume(b[0] < 0x80 && b[1] < 0x80); b }
fn s_of(b: &[u8]) -> String { unsafe { String::from_utf8_unchecked(b.to_vec()) } }
fn qos_of(q: u8) -> QualityOfService { match q { 0 => QualityOfService::AtMostOnce, 1 => QualityOfService::AtLeastOnce, _ => QualityOfService::ExactlyOnce } }


fn ctx(v: ProtocolVersion, res: OutboundAliasResolution) -> EncodingContext { EncodingContext { outbound_alias_resolution: res, protocol_version: v } }
