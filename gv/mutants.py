#!/usr/bin/env python3
"""Seeded-change bookkeeping.

  python3 gv/mutants.py confirm [id...]   re-confirm each seeded change in ONE scratch worktree of /repo (outside /repo and
                                          /verif): the demonstration fails with the change and passes without it
  python3 gv/mutants.py detect  [id...]   apply each patch to /repo, run the owning property's quick check, undo the patch
                                          (git -C /repo checkout -- .), record the outcome in seeded/<id>/detect.json
Nothing here is registered in MANIFEST.json; it is the self-test of the checks.
"""
import json
import os
import re
import shutil
import subprocess
import sys
import time

VERIF = os.path.dirname(os.path.dirname(os.path.abspath(__file__)))
SEEDED = os.path.join(VERIF, "seeded")
REPO = "/repo"


def sh(cmd, cwd=None, timeout=None, env=None):
    p = subprocess.run(cmd, cwd=cwd, shell=isinstance(cmd, str), stdout=subprocess.PIPE, stderr=subprocess.STDOUT, timeout=timeout, env=env)
    return p.returncode, p.stdout.decode(errors="replace")


def ids(args):
    all_ids = sorted(d for d in os.listdir(SEEDED) if os.path.isfile(os.path.join(SEEDED, d, "patch.diff")))
    return [i for i in all_ids if not args or i in args]


def confirm(args):
    wt = "/tmp/gv-confirm-wt"
    sh(["git", "-C", REPO, "worktree", "remove", "--force", wt])
    rc, out = sh(["git", "-C", REPO, "worktree", "add", "--detach", wt, "HEAD"])
    if rc != 0:
        print(out)
        return 2
    try:
        for mid in ids(args):
            d = os.path.join(SEEDED, mid)
            meta = json.load(open(os.path.join(d, "meta.json")))
            cmd = meta.get("demo_cmd", "")
            cmd = re.sub(r"cd /tmp/wt-[A-Za-z0-9]+ *&& *", "", cmd)
            cmd = cmd.replace("&amp;", "&")
            res = {"demo_cmd": cmd}
            sh(["git", "checkout", "--", "."], cwd=wt)
            sh(["git", "clean", "-fdq", "--", "gneiss-mqtt", "gneiss-mqtt-aws"], cwd=wt)
            rc1, o1 = sh(["git", "apply", os.path.join(d, "demo.diff")], cwd=wt)
            if rc1 != 0:
                res["error"] = "demo.diff does not apply: " + o1[-300:]
            else:
                t0 = time.time()
                rc_clean, o_clean = sh(cmd, cwd=wt, timeout=3600)
                res["without_change"] = {"rc": rc_clean, "tail": o_clean[-600:], "s": round(time.time() - t0)}
                rc2, o2 = sh(["git", "apply", os.path.join(d, "patch.diff")], cwd=wt)
                if rc2 != 0:
                    res["error"] = "patch.diff does not apply on the current /repo HEAD: " + o2[-300:]
                else:
                    t0 = time.time()
                    rc_mut, o_mut = sh(cmd, cwd=wt, timeout=3600)
                    res["with_change"] = {"rc": rc_mut, "tail": o_mut[-600:], "s": round(time.time() - t0)}
                    res["confirmed"] = (rc_clean == 0 and rc_mut != 0)
            res["repo_head"] = sh(["git", "-C", REPO, "rev-parse", "--short", "HEAD"])[1].strip()
            json.dump(res, open(os.path.join(d, "confirm.json"), "w"), indent=1)
            print(mid, "confirmed" if res.get("confirmed") else "NOT CONFIRMED: %s" % (res.get("error") or "see confirm.json"))
    finally:
        sh(["git", "-C", REPO, "worktree", "remove", "--force", wt])
        shutil.rmtree(wt, ignore_errors=True)
    return 0


def detect(args):
    rc, out = sh(["git", "-C", REPO, "status", "--porcelain", "--untracked-files=no"])
    if out.strip():
        print("refusing: /repo has local modifications:\n" + out)
        return 2
    for mid in ids(args):
        d = os.path.join(SEEDED, mid)
        meta = json.load(open(os.path.join(d, "meta.json")))
        prop = meta.get("property") or mid.split("-")[0]
        props = [prop] + [p for p in meta.get("also_check", []) if p != prop]
        rc, out = sh(["git", "-C", REPO, "apply", os.path.join(d, "patch.diff")])
        res = {"property": prop, "checks": {}}
        if rc != 0:
            res["error"] = "patch does not apply on the current /repo HEAD: " + out[-300:]
        else:
            try:
                for p in props:
                    ev = os.path.join(VERIF, "evidence", p + ".json")
                    keep = open(ev).read() if os.path.exists(ev) else None
                    t0 = time.time()
                    cmd = [os.path.join(VERIF, "check"), p, "--tier", "quick"]
                    if meta.get("only_harnesses", {}).get(p):
                        cmd = [os.path.join(VERIF, "check"), p, "--tier", "thorough", "--only", ",".join(meta["only_harnesses"][p])]
                    rc2, o2 = sh(cmd, cwd=VERIF, timeout=5400)
                    viol = [l for l in o2.split("\n") if l.startswith("VIOLATION") or l.startswith("  failed check") or l.startswith("INCONCLUSIVE") or l.startswith("KNOWN-FINDING")]
                    res["checks"][p] = {"exit": rc2, "lines": viol[:12], "s": round(time.time() - t0)}
                    if keep is not None:      # the evidence of the unchanged tree stays what is committed
                        open(ev, "w").write(keep)
            finally:
                sh(["git", "-C", REPO, "checkout", "--", "."])
        res["detected"] = any(c["exit"] == 1 for c in res["checks"].values())
        res["repo_head"] = sh(["git", "-C", REPO, "rev-parse", "--short", "HEAD"])[1].strip()
        json.dump(res, open(os.path.join(d, "detect.json"), "w"), indent=1)
        print(mid, "DETECTED" if res["detected"] else "missed", {p: c["exit"] for p, c in res["checks"].items()}, res.get("error", ""))
    # evidence files written while a patch was applied describe the mutated tree: they are regenerated by the next regular run
    return 0


def detect_wt(args):
    """Like detect, but the patch is applied to a scratch worktree of /repo's HEAD and the check is pointed at it with
    GV_REPO, so /repo is never modified and several detections can run side by side."""
    for mid in ids(args):
        d = os.path.join(SEEDED, mid)
        meta = json.load(open(os.path.join(d, "meta.json")))
        prop = meta.get("property") or mid.split("-")[0]
        props = [prop] + [p for p in meta.get("also_check", []) if p != prop]
        wt = "/tmp/gv-detect-%s" % mid
        sh(["git", "-C", REPO, "worktree", "remove", "--force", wt])
        rc, out = sh(["git", "-C", REPO, "worktree", "add", "--detach", wt, "HEAD"])
        res = {"property": prop, "checks": {}, "mode": "scratch worktree of /repo HEAD with the patch applied, check run with GV_REPO=<worktree>"}
        try:
            rc, out = sh(["git", "apply", os.path.join(d, "patch.diff")], cwd=wt)
            if rc != 0:
                res["error"] = "patch does not apply on the current /repo HEAD: " + out[-300:]
            else:
                for p in props:
                    ev = os.path.join(VERIF, "evidence", p + ".json")
                    keep = open(ev).read() if os.path.exists(ev) else None
                    t0 = time.time()
                    cmd = [os.path.join(VERIF, "check"), p, "--tier", "quick"]
                    if meta.get("only_harnesses", {}).get(p):
                        cmd = [os.path.join(VERIF, "check"), p, "--tier", "thorough", "--only", ",".join(meta["only_harnesses"][p])]
                    env = dict(os.environ, GV_REPO=wt)
                    rc2, o2 = sh(cmd, cwd=VERIF, timeout=5400, env=env)
                    viol = [l for l in o2.split("\n") if l.startswith("VIOLATION") or l.startswith("  failed check") or l.startswith("INCONCLUSIVE") or l.startswith("KNOWN-FINDING")]
                    res["checks"][p] = {"exit": rc2, "lines": viol[:12], "s": round(time.time() - t0)}
                    if keep is not None:
                        open(ev, "w").write(keep)
        finally:
            sh(["git", "-C", REPO, "worktree", "remove", "--force", wt])
            shutil.rmtree(wt, ignore_errors=True)
        res["detected"] = any(c["exit"] == 1 for c in res["checks"].values())
        res["repo_head"] = sh(["git", "-C", REPO, "rev-parse", "--short", "HEAD"])[1].strip()
        json.dump(res, open(os.path.join(d, "detect.json"), "w"), indent=1)
        print(mid, "DETECTED" if res["detected"] else "missed", {p: c["exit"] for p, c in res["checks"].items()}, res.get("error", ""))
    return 0


def table(args):
    rows = ["| seeded change | property | what it needs to manifest | demonstration re-confirmed | property's check | failed checks reported |", "|---|---|---|---|---|---|"]
    for mid in ids(args):
        d = os.path.join(SEEDED, mid)
        meta = json.load(open(os.path.join(d, "meta.json")))
        det = json.load(open(os.path.join(d, "detect.json"))) if os.path.exists(os.path.join(d, "detect.json")) else {}
        con = json.load(open(os.path.join(d, "confirm.json"))) if os.path.exists(os.path.join(d, "confirm.json")) else {}
        lines = []
        for p, c in det.get("checks", {}).items():
            for l in c.get("lines", []):
                m = re.search(r"failed check in (\S+): (.*) at ", l)
                if m:
                    lines.append("`%s`: %s" % (m.group(1), m.group(2)[:90]))
        verdict = "**detected** (exit 1, replayed natively)" if det.get("detected") else ("not detected" if det else "not run")
        if det.get("error"):
            verdict = "patch no longer applies"
        needs = (meta.get("needs") or "").replace("\n", " ").replace("|", "/")[:260]
        rows.append("| %s | %s | %s | %s | %s | %s |" % (mid, meta.get("property"), needs, "yes" if con.get("confirmed") else ("no: " + str(con.get("error", "see confirm.json"))[:60] if con else "not run"), verdict, "<br>".join(lines[:3])))
    print("\n".join(rows))
    return 0


if __name__ == "__main__":
    if len(sys.argv) >= 2 and sys.argv[1] == "table":
        sys.exit(table(sys.argv[2:]))
    if len(sys.argv) >= 2 and sys.argv[1] == "detect-wt":
        sys.exit(detect_wt(sys.argv[2:]))
    if len(sys.argv) < 2 or sys.argv[1] not in ("confirm", "detect"):
        print(__doc__)
        sys.exit(2)
    sys.exit(confirm(sys.argv[2:]) if sys.argv[1] == "confirm" else detect(sys.argv[2:]))
