// @gv-module parent=gneiss-mqtt/src/encode.rs name=gv_encode pkg=gneiss-mqtt
//
// Child module of encode.rs. Property C02 (outbound packets are spec-conformant and faithful; fragmentation independent).
// Oracles are written from the OASIS MQTT 5.0 / 3.1.1 packet layouts, not from the crate's codec.
use super::{encode_vli, compute_variable_length_integer_encode_size, process_byte_slice_encoding, process_encoding_step,
    EncodingStep, EncodingContext, Encoder, EncodeResult};
use crate::alias::OutboundAliasResolution;
use crate::mqtt::{MqttPacket, ProtocolVersion, PublishPacket, PubackPacket, PubrecPacket, PubrelPacket, PubcompPacket, SubscribePacket,
    UnsubscribePacket, DisconnectPacket, ConnectPacket, PingreqPacket, Subscription, UserProperty, QualityOfService,
    PubackReasonCode, PubrecReasonCode, PubrelReasonCode, PubcompReasonCode, DisconnectReasonCode, RetainHandlingType, PayloadFormatIndicator};
use std::collections::VecDeque;

include!("common.rs");

include!("encode_common.rs");

// ------------------------------------------------------------------------------------------------
// H1 variable byte integers
// ------------------------------------------------------------------------------------------------

// @gv props=C02,C11 tier=quick required=yes fns=encode_vli,compute_variable_length_integer_encode_size
// @gv bounds="every u32 value for encode_vli; every usize for the size function"
#[kani::proof]
#[kani::unwind(6)]
#[kani::stub(std::fmt::format, stub_format)]
fn c02_vli() {
    let v: u32 = kani::any();
    let mut dest: Vec<u8> = Vec::with_capacity(8);
    let r = encode_vli(v, &mut dest);
    let mut o = Sink::new();
    if v <= 268_435_455 { o.vbi(v); }
    kani::cover!(v == 268_435_455, "largest encodable value");
    kani::cover!(v == 16384, "three-byte boundary");
    assert!(r.is_ok() == (v <= 268_435_455));
    if r.is_ok() {
        assert!(dest.len() == o.n);
        let mut i = 0;
        while i < 4 { if i < o.n { assert!(dest[i] == o.b[i]); } i += 1; }
    } else {
        assert!(dest.is_empty());
    }
    let n: usize = kani::any();
    let s = compute_variable_length_integer_encode_size(n);
    assert!(s.is_ok() == (n <= 268_435_455));
    if let Ok(k) = &s { assert!(*k == vbi_len(n)); if n == v as usize && r.is_ok() { assert!(*k == dest.len()); } }
    std::mem::forget(r); std::mem::forget(s); std::mem::forget(dest);
}

// ------------------------------------------------------------------------------------------------
// H2 the resumable slice step (fragmentation independence)
// ------------------------------------------------------------------------------------------------

// @gv props=C02,C11 tier=quick required=yes fns=process_byte_slice_encoding
// @gv bounds="field of symbolic length 0..8 with symbolic content, resume offset 0..len, destination with capacity 8 and symbolic fill 0..8"
#[kani::proof]
#[kani::unwind(10)]
fn c02_slice_step() {
    let data: [u8; 8] = kani::any();
    let len: usize = kani::any();
    kani::assume(len <= 8);
    let offset: usize = kani::any();
    kani::assume(offset <= len);
    let fill: usize = kani::any();
    kani::assume(fill <= 8);
    let mut dest: Vec<u8> = Vec::with_capacity(8);
    let mut i = 0;
    while i < fill { dest.push(0xEE); i += 1; }
    let cap0 = dest.capacity();
    let r = process_byte_slice_encoding(&data[..len], offset, &mut dest);
    let space = 8 - fill;
    let remaining = len - offset;
    let take = if space < remaining { space } else { remaining };
    kani::cover!(take < remaining && take > 0, "field split across buffers");
    kani::cover!(take == remaining && remaining > 0, "field finished");
    // appends exactly the next `take` bytes, never grows the buffer, reports the resume offset (0 = finished)
    assert!(dest.capacity() == cap0);
    assert!(dest.len() == fill + take);
    let mut i = 0;
    while i < 8 { if i < take { assert!(dest[fill + i] == data[offset + i]); } i += 1; }
    assert!(r == if take < remaining { offset + take } else { 0 });
    std::mem::forget(dest);
}

// ------------------------------------------------------------------------------------------------
// H3b what one step emits (real process_encoding_step, step variant known)
// ------------------------------------------------------------------------------------------------

fn get_topic_for_test(p: &MqttPacket) -> &str { match p { MqttPacket::Publish(x) => &x.topic, _ => panic!("gv") } }
fn get_payload_for_test(p: &MqttPacket) -> &[u8] { match p { MqttPacket::Publish(x) => x.payload.as_ref().unwrap(), _ => panic!("gv") } }
fn get_filter_for_test(p: &MqttPacket, i: usize) -> &str { match p { MqttPacket::Unsubscribe(x) => &x.topic_filters[i], _ => panic!("gv") } }
fn get_prop_for_test(p: &MqttPacket, i: usize) -> &UserProperty { match p { MqttPacket::Publish(x) => &x.user_properties.as_ref().unwrap()[i], _ => panic!("gv") } }

// @gv props=C02 tier=quick required=yes fns=process_encoding_step
// @gv bounds="the four fixed-width step kinds (Uint8/Uint16/Uint32/Vli) with symbolic values, destination capacity 8 with symbolic fill 0..4"
#[kani::proof]
#[kani::unwind(6)]
#[kani::stub(std::fmt::format, stub_format)]
fn c02_step_integral() {
    let packet = MqttPacket::Pingreq(PingreqPacket {});
    let mut steps: VecDeque<EncodingStep> = VecDeque::new();
    let fill: usize = kani::any();
    kani::assume(fill <= 4);
    let mut dest: Vec<u8> = Vec::with_capacity(8);
    let mut i = 0;
    while i < fill { dest.push(0xEE); i += 1; }
    let kind: u8 = kani::any();
    kani::assume(kind < 4);
    let v: u32 = kani::any();
    let mut o = Sink::new();
    let r = match kind {
        0 => { o.u8(v as u8); process_encoding_step(&mut steps, EncodingStep::Uint8(v as u8), &packet, &mut dest) }
        1 => { o.u16(v as u16); process_encoding_step(&mut steps, EncodingStep::Uint16(v as u16), &packet, &mut dest) }
        2 => { o.u32(v); process_encoding_step(&mut steps, EncodingStep::Uint32(v), &packet, &mut dest) }
        _ => { kani::assume(v <= 268_435_455); o.vbi(v); process_encoding_step(&mut steps, EncodingStep::Vli(v), &packet, &mut dest) }
    };
    assert!(r.is_ok());
    assert!(dest.len() == fill + o.n && o.n <= 4 && dest.capacity() == 8 && steps.is_empty());
    let mut i = 0;
    while i < 4 { if i < o.n { assert!(dest[fill + i] == o.b[i]); } i += 1; }
    std::mem::forget(r); std::mem::forget(dest); std::mem::forget(steps);
}

// @gv props=C02 tier=quick required=yes fns=process_encoding_step,process_byte_slice_encoding
// @gv bounds="the StringSlice and BytesSlice step kinds over a 5-byte field with symbolic content, symbolic resume offset 0..5, destination capacity 8 with symbolic fill 0..4 (the encoder's guard): the unfinished remainder is re-queued at the FRONT with the right offset"
#[kani::proof]
#[kani::unwind(10)]
#[kani::stub(std::fmt::format, stub_format)]
fn c02_step_slices() {
    let data: [u8; 5] = kani::any();
    kani::assume(data[0] < 0x80 && data[1] < 0x80 && data[2] < 0x80 && data[3] < 0x80 && data[4] < 0x80);
    let packet = MqttPacket::Publish(PublishPacket { topic: s_of(&data), payload: Some(data.to_vec()), ..Default::default() });
    let mut steps: VecDeque<EncodingStep> = VecDeque::new();
    steps.push_back(EncodingStep::Uint8(0x55)); // something already queued behind
    let offset: usize = kani::any();
    kani::assume(offset <= 5);
    let fill: usize = kani::any();
    kani::assume(fill <= 4); // Encoder::encode only processes a step while at least 4 bytes are free
    let mut dest: Vec<u8> = Vec::with_capacity(8);
    let mut i = 0;
    while i < fill { dest.push(0xEE); i += 1; }
    let string_kind: bool = kani::any();
    let r = if string_kind { process_encoding_step(&mut steps, EncodingStep::StringSlice(get_topic_for_test, offset), &packet, &mut dest) }
            else { process_encoding_step(&mut steps, EncodingStep::BytesSlice(get_payload_for_test, offset), &packet, &mut dest) };
    assert!(r.is_ok());
    let space = 8 - fill;
    let remaining = 5 - offset;
    let take = if space < remaining { space } else { remaining };
    assert!(dest.len() == fill + take && dest.capacity() == 8);
    let mut i = 0;
    while i < 5 { if i < take { assert!(dest[fill + i] == data[offset + i]); } i += 1; }
    // (the real code uses the resume offset 0 as "finished", so a split that has written nothing yet -- possible only
    //  with a full buffer, which Encoder::encode's `len + 4 <= capacity` guard excludes -- is not distinguishable)
    if take < remaining && offset + take > 0 {
        assert!(steps.len() == 2);
        match steps.front().unwrap() {
            EncodingStep::StringSlice(_, o2) => assert!(string_kind && *o2 == offset + take),
            EncodingStep::BytesSlice(_, o2) => assert!(!string_kind && *o2 == offset + take),
            _ => assert!(false),
        }
    } else if take == remaining {
        assert!(steps.len() == 1);
    }
    std::mem::forget(r); std::mem::forget(dest); std::mem::forget(steps); std::mem::forget(packet);
}

