// Concrete counterexample produced by Kani/CBMC for harness protocol::gv_protocol::c05_session_clears_inbound_set (property C05).
// Replay: ./check C05 --replay /verif/replays/C05/c05_session_clears_inbound_set.rs
// module: protocol_child.rs
/// Test generated for harness `protocol::gv_protocol::c05_session_clears_inbound_set` 
///
/// Check for `cover`: "session resumed"
///
/// # Warning
///
/// Concrete playback tests combined with stubs or contracts is highly
/// experimental, and subject to change.
///
/// The original harness has stubs which are not applied to this test.
/// This may cause a mismatch of non-deterministic values if the stub
/// creates any non-deterministic value.
/// The execution path may also differ, which can be used to refine the stub
/// logic.

#[test]
fn kani_concrete_playback_c05_session_clears_inbound_set_12680633260754235238() {
    let concrete_vals: Vec<Vec<u8>> = vec![
        // 32768
        vec![0, 128],
        // 0
        vec![0, 0],
        // 0
        vec![0],
        // 1
        vec![1],
    ];
    kani::concrete_playback_run(concrete_vals, c05_session_clears_inbound_set);
}

/// Test generated for harness `protocol::gv_protocol::c05_session_clears_inbound_set` 
///
/// Check for `cover`: "session lost"
///
/// # Warning
///
/// Concrete playback tests combined with stubs or contracts is highly
/// experimental, and subject to change.
///
/// The original harness has stubs which are not applied to this test.
/// This may cause a mismatch of non-deterministic values if the stub
/// creates any non-deterministic value.
/// The execution path may also differ, which can be used to refine the stub
/// logic.

#[test]
fn kani_concrete_playback_c05_session_clears_inbound_set_12677304168714375423() {
    let concrete_vals: Vec<Vec<u8>> = vec![
        // 32768
        vec![0, 128],
        // 0
        vec![0, 0],
        // 0
        vec![0],
        // 0
        vec![0],
    ];
    kani::concrete_playback_run(concrete_vals, c05_session_clears_inbound_set);
}
