// Concrete counterexample produced by Kani/CBMC for harness protocol::gv_protocol::c07_settings (property C16).
// Replay: ./check C16 --replay /verif/replays/C16/c07_settings.rs
// module: protocol_child.rs
// assertion: "assertion failed: s.wildcard_subscriptions_available ==
#[test]
fn kani_concrete_playback_c07_settings_14642974946445852088() {
    let concrete_vals: Vec<Vec<u8>> = vec![
        // 0
        vec![0],
        // 1
        vec![1],
        // 4294967295
        vec![255, 255, 255, 255],
        // 6
        vec![6],
        // 0
        vec![0],
        // 0
        vec![0],
        // 0
        vec![0],
        // 0
        vec![0],
        // 1
        vec![1],
        // 0
        vec![0],
        // 1
        vec![1],
        // 3
        vec![3, 0],
        // 1
        vec![1],
        // 1
        vec![1],
        // 1
        vec![1],
        // 4294967295
        vec![255, 255, 255, 255],
        // 1
        vec![1],
        // 65535
        vec![255, 255],
        // 1
        vec![1],
        // 0
        vec![0],
        // 1
        vec![1],
        // 0
        vec![0],
        // 0
        vec![0],
        // 0
        vec![0],
    ];
    kani::concrete_playback_run(concrete_vals, c07_settings);
}
