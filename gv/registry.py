"""Harness registry: parsed from the `// @gv key=value ...` comment lines that precede
each `#[kani::proof]` function in /verif/harness/*.rs (single source of truth)."""
import os
import re
import shlex

from . import inject

GV_LINE = re.compile(r"^\s*//\s*@gv\s+(.*)$")
FN_LINE = re.compile(r"^\s*(?:pub(?:\([^)]*\))?\s+)?fn\s+([A-Za-z0-9_]+)\s*\(")
MACRO_LINE = re.compile(r"^\s*[a-z_]+_harness!\(\s*([A-Za-z0-9_]+)\s*,")
UNWIND = re.compile(r"#\[kani::unwind\((\d+)\)\]")
STUB = re.compile(r"#\[kani::stub\(([^,]+),\s*([^)]+)\)\]")


class Harness:
    def __init__(self, name, module, attrs, unwind, stubs):
        self.name = name
        self.module = module            # attrs of the harness file
        self.qualified = inject.module_path(module) + "::" + name
        self.props = [p for p in attrs.get("props", "").split(",") if p]
        self.tier = attrs.get("tier", "quick")          # quick | thorough
        self.required = attrs.get("required", "yes") == "yes"
        self.fns = [f for f in attrs.get("fns", "").split(",") if f]
        self.bounds = attrs.get("bounds", "")
        self.stub_note = attrs.get("stubs", "")
        self.timeout = int(attrs.get("timeout", "600"))
        self.mem_gb = float(attrs.get("mem", "8"))
        self.finding = attrs.get("finding", "")
        self.unwind = unwind if unwind is not None else (int(attrs["unwind"]) if "unwind" in attrs else None)
        self.stubs = stubs
        self.pkg = module["pkg"]
        self.features = module.get("features", "")

    def group(self):
        return (self.pkg, self.features)


def load():
    out = []
    files = []
    mods = inject.harness_files()
    for fn, mod in mods.items():
        files.append((mod["path"], mod))
    for fn in sorted(os.listdir(inject.HARNESS_DIR)):
        if not fn.endswith(".rs"):
            continue
        path = os.path.join(inject.HARNESS_DIR, fn)
        m = re.search(r"^//\s*@gv-part-of\s+(\S+)", open(path, encoding="utf-8").read(), re.M)
        if m and m.group(1) in mods:
            files.append((path, mods[m.group(1)]))
    for path, mod in files:
        with open(path, encoding="utf-8") as f:
            lines = f.read().split("\n")
        attrs = {}
        unwind = None
        stubs = []
        pending = False
        for ln in lines:
            m = GV_LINE.match(ln)
            if m:
                for tok in shlex.split(m.group(1)):
                    if "=" in tok:
                        k, v = tok.split("=", 1)
                        attrs[k] = v
                pending = True
                continue
            if not pending:
                continue
            u = UNWIND.search(ln)
            if u:
                unwind = int(u.group(1))
            s = STUB.search(ln)
            if s:
                stubs.append("%s -> %s" % (s.group(1).strip(), s.group(2).strip()))
            f = FN_LINE.match(ln) or MACRO_LINE.match(ln)
            if f:
                out.append(Harness(f.group(1), mod, attrs, unwind, stubs))
                attrs, unwind, stubs, pending = {}, None, [], False
    names = [h.name for h in out]
    dup = set(n for n in names if names.count(n) > 1)
    if dup:
        raise RuntimeError("duplicate harness names: %s" % sorted(dup))
    return out


def for_property(prop, tier):
    hs = [h for h in load() if prop in h.props]
    if tier == "quick":
        hs = [h for h in hs if h.tier == "quick"]
    return hs
