// @gv-module parent=gneiss-mqtt/src/client/synchronous/threaded/ws_stream.rs name=gv_ws pkg=gneiss-mqtt features=threaded-websockets
//
// Child module of ws_stream.rs (needs feature threaded-websockets). Property C13, WebSocket adapter only: the byte stream
// handed to the engine is the concatenation of the binary message payloads, whatever the message and read-buffer sizes.
use super::{MessageCursor, WebsocketStreamWrapper};
use std::io::{Read, Write};
use tungstenite::protocol::{Message, WebSocket, Role};

include!("common.rs");

// @gv props=C13,C11 tier=quick required=yes fns=MessageCursor::read
// @gv bounds="message of symbolic length 0..6 with symbolic content, symbolic cursor position 0..len, destination of symbolic length 0..4"
#[kani::proof]
#[kani::unwind(10)]
fn c13_cursor() {
    let content: [u8; 6] = kani::any();
    let len: usize = kani::any();
    kani::assume(len <= 6);
    let index: usize = kani::any();
    kani::assume(index <= len);
    let mut c = MessageCursor { data: content[..len].to_vec(), index };
    let mut dest = [0xEEu8; 4];
    let dl: usize = kani::any();
    kani::assume(dl <= 4);
    let n = c.read(&mut dest[..dl]);
    let want = if len - index < dl { len - index } else { dl };
    kani::cover!(index > 0 && want > 0, "second read of a message larger than the buffer");
    // copies the NEXT `want` bytes of the message, advances by exactly that much, never touches the rest of the buffer
    assert!(n == want, "gv: cursor read returns the number of bytes available and fitting");
    assert!(c.index == index + want);
    let mut i = 0;
    while i < 4 {
        if i < want { assert!(dest[i] == content[index + i], "gv: cursor read must continue where the previous read stopped"); } else { assert!(dest[i] == 0xEE); }
        i += 1;
    }
    std::mem::forget(c);
}

// @gv props=C13,C11 tier=quick required=yes fns=MessageCursor::new,MessageCursor::read
// @gv bounds="binary message of symbolic length 0..6 read through a destination of symbolic length 1..3 in up to three successive reads: the concatenation of what was returned is a prefix of the message, in order, without repetition"
#[kani::proof]
#[kani::unwind(10)]
fn c13_cursor_successive_reads() {
    let content: [u8; 6] = kani::any();
    let len: usize = kani::any();
    kani::assume(len <= 6);
    let mut c = match MessageCursor::new(Message::Binary(content[..len].to_vec())) { Some(c) => c, None => { assert!(false); return; } };
    let dl: usize = kani::any();
    kani::assume(dl >= 1 && dl <= 3);
    let mut got = [0u8; 9];
    let mut total = 0usize;
    let mut round = 0;
    while round < 3 {
        let mut dest = [0u8; 3];
        let n = c.read(&mut dest[..dl]);
        assert!(n <= dl);
        let mut i = 0;
        while i < n { got[total + i] = dest[i]; i += 1; }
        total += n;
        round += 1;
    }
    kani::cover!(len == 6 && dl == 2, "message three times the buffer size");
    let want = if len < 3 * dl { len } else { 3 * dl };
    assert!(total == want, "gv: successive reads deliver the whole message, nothing more");
    let mut i = 0;
    while i < 9 { if i < total { assert!(got[i] == content[i], "gv: successive reads deliver the message bytes in order without repetition"); } i += 1; }
    std::mem::forget(c);
}

struct NullStream;
impl Read for NullStream { fn read(&mut self, _b: &mut [u8]) -> std::io::Result<usize> { Ok(0) } }
impl Write for NullStream { fn write(&mut self, b: &[u8]) -> std::io::Result<usize> { Ok(b.len()) } fn flush(&mut self) -> std::io::Result<()> { Ok(()) } }

static mut WS_CALLS: usize = 0;
static mut WS_M1: [u8; 3] = [0; 3];
static mut WS_L1: usize = 0;
static mut WS_M2: [u8; 3] = [0; 3];
static mut WS_L2: usize = 0;

/// tungstenite's documented `read` contract, as far as the adapter depends on it: yields the next complete message, or
/// reports that nothing is available yet (WouldBlock). Here: message 1, then message 2, then would-block.
fn stub_ws_read<Stream: Read + Write>(_ws: &mut WebSocket<Stream>) -> Result<Message, tungstenite::error::Error> {
    unsafe {
        WS_CALLS += 1;
        if WS_CALLS == 1 { return Ok(Message::Binary(WS_M1[..WS_L1].to_vec())); }
        if WS_CALLS == 2 { return Ok(Message::Binary(WS_M2[..WS_L2].to_vec())); }
    }
    Err(tungstenite::error::Error::Io(std::io::Error::from(std::io::ErrorKind::WouldBlock)))
}

fn ws_read_body(l1: usize, l2: usize, bl: usize) {
    let (m1, m2): ([u8; 3], [u8; 3]) = (kani::any(), kani::any());
    unsafe { WS_M1 = m1; WS_L1 = l1; WS_M2 = m2; WS_L2 = l2; WS_CALLS = 0; }
    let ws = WebSocket::from_raw_socket(NullStream, Role::Client, None);
    let mut w = WebsocketStreamWrapper::new(ws);
    let mut buf = [0xEEu8; 6];
    let r = w.read(&mut buf[..bl]);
    // the stream is m1 ++ m2; a read returns a prefix of what has not been delivered yet, at most the buffer size, never 0
    let total = l1 + l2;
    let want = if total < bl { total } else { bl };
    match &r {
        Ok(n) => {
            assert!(*n >= 1 && *n <= bl, "gv: a read never reports more bytes than the buffer holds, and never 0");
            assert!(*n == want, "gv: a read delivers what is available up to the buffer size");
            let mut i = 0;
            while i < 6 { if i < *n { let b = if i < l1 { m1[i] } else { m2[i - l1] }; assert!(buf[i] == b, "gv: bytes are delivered in stream order without loss or duplication"); } i += 1; }
        }
        Err(_) => { assert!(false, "gv: data was available"); }
    }
    std::mem::forget(r); std::mem::forget(w);
}

// @gv props=C13 tier=quick required=yes fns=WebsocketStreamWrapper::read,MessageCursor::new,MessageCursor::read
// @gv bounds="two binary messages of 1 and 2 bytes (symbolic content) arriving back to back, read into a 3-byte buffer: both messages are delivered by one read, in order"
// @gv stubs="tungstenite::WebSocket::read -> two messages then WouldBlock"
// @gv timeout=900 mem=6
#[kani::proof]
#[kani::unwind(10)]
#[kani::stub(std::fmt::format, stub_format)]
#[kani::stub(tungstenite::protocol::WebSocket::read, stub_ws_read)]
fn c13_ws_read_two_messages_one_read() { ws_read_body(1, 2, 3) }

// @gv props=C13 tier=quick required=yes fns=WebsocketStreamWrapper::read,MessageCursor::new,MessageCursor::read
// @gv bounds="a 3-byte message read into a 2-byte buffer (first read returns the first two bytes)"
// @gv stubs="tungstenite::WebSocket::read -> two messages then WouldBlock"
// @gv timeout=900 mem=6
#[kani::proof]
#[kani::unwind(10)]
#[kani::stub(std::fmt::format, stub_format)]
#[kani::stub(tungstenite::protocol::WebSocket::read, stub_ws_read)]
fn c13_ws_read_large_message() { ws_read_body(3, 1, 2) }
