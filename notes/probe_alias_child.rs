use super::{ManualOutboundAliasResolver, OutboundAliasResolver, InboundAliasResolver};

fn topic_of(sel: u8) -> &'static str { match sel { 0 => "a", 1 => "b", _ => "c/d" } }

// C17 outbound (manual resolver): after reset(max), two resolutions with symbolic aliases/topics:
// an empty-topic send is only produced for an alias whose last *sent* binding is exactly this topic; alias in 1..=max
#[kani::proof]
#[kani::unwind(5)]
fn probea_manual_two_steps() {
    let mut r = ManualOutboundAliasResolver::new();
    let max: u16 = kani::any();
    r.reset_for_new_connection(max);
    let a1: Option<u16> = if kani::any() { Some(kani::any()) } else { None };
    let t1: u8 = kani::any(); kani::assume(t1 < 3);
    let res1 = r.resolve_and_apply_topic_alias(&a1, topic_of(t1));
    assert!(!res1.skip_topic);                       // nothing bound yet on this connection
    if let Some(x) = res1.alias { assert!(x >= 1 && x <= max); }
    let a2: Option<u16> = if kani::any() { Some(kani::any()) } else { None };
    let t2: u8 = kani::any(); kani::assume(t2 < 3);
    let res2 = r.resolve_and_apply_topic_alias(&a2, topic_of(t2));
    if let Some(x) = res2.alias { assert!(x >= 1 && x <= max); }
    if res2.skip_topic {
        assert!(res2.alias.is_some());
        assert!(res1.alias == res2.alias && t1 == t2);   // server holds exactly this binding
    }
    std::mem::forget(r);
}

// C17 inbound: bind then resolve
#[kani::proof]
#[kani::unwind(5)]
fn probea_inbound_two_steps() {
    let max: u16 = kani::any();
    let mut r = InboundAliasResolver::new(max);
    let a1: u16 = kani::any();
    let t1: u8 = kani::any(); kani::assume(t1 < 3);
    let mut topic1 = topic_of(t1).to_string();
    let r1 = r.resolve_topic_alias(&Some(a1), &mut topic1);
    let ok1 = r1.is_ok(); std::mem::forget(r1);
    assert!(ok1 == (a1 >= 1 && a1 <= max));
    let a2: u16 = kani::any();
    let mut topic2 = String::new();
    let r2 = r.resolve_topic_alias(&Some(a2), &mut topic2);
    let ok2 = r2.is_ok(); std::mem::forget(r2);
    assert!(ok2 == (ok1 && a2 == a1));
    if ok2 { assert!(topic2.as_str() == topic_of(t1)); }
    std::mem::forget(r); std::mem::forget(topic1); std::mem::forget(topic2);
}

#[test]
fn kani_concrete_playback_probea_inbound_two_steps_1() {
    let concrete_vals: Vec<Vec<u8>> = vec![ vec![1, 0], vec![1, 0], vec![2], vec![1, 0] ];
    kani::concrete_playback_run(concrete_vals, probea_inbound_two_steps);
}

#[kani::proof]
#[kani::unwind(5)]
fn probea_inbound_two_steps_concrete_topic() {
    let max: u16 = kani::any();
    let mut r = InboundAliasResolver::new(max);
    let a1: u16 = kani::any();
    let mut topic1 = "c/d".to_string();
    let r1 = r.resolve_topic_alias(&Some(a1), &mut topic1);
    let ok1 = r1.is_ok(); std::mem::forget(r1);
    assert!(ok1 == (a1 >= 1 && a1 <= max));
    let a2: u16 = kani::any();
    let mut topic2 = String::new();
    let r2 = r.resolve_topic_alias(&Some(a2), &mut topic2);
    let ok2 = r2.is_ok(); std::mem::forget(r2);
    assert!(ok2 == (ok1 && a2 == a1));
    if ok2 { assert!(topic2.as_str() == "c/d"); }
    std::mem::forget(r); std::mem::forget(topic1); std::mem::forget(topic2);
}
