// Concrete counterexample produced by Kani/CBMC for harness alias::gv_alias::c17_lru_step_alias_in_range_any_size (property C17).
// Replay: ./check C17 --replay /verif/replays/C17/c17_lru_step_alias_in_range_any_size.rs
// module: alias_child.rs
// cover: "cache full: an alias is recycled"
#[test]
fn kani_concrete_playback_c17_lru_step_alias_in_range_any_size_4824000972805793920() {
    let concrete_vals: Vec<Vec<u8>> = vec![
        // 61439
        vec![255, 239],
        // 35839
        vec![255, 139],
        // 35839ul
        vec![255, 139, 0, 0, 0, 0, 0, 0],
        // 34816
        vec![0, 136],
    ];
    kani::concrete_playback_run(concrete_vals, c17_lru_step_alias_in_range_any_size);
}

// cover: "largest legal alias table, full"
#[test]
fn kani_concrete_playback_c17_lru_step_alias_in_range_any_size_6027586187931289389() {
    let concrete_vals: Vec<Vec<u8>> = vec![
        // 65535
        vec![255, 255],
        // 65535
        vec![255, 255],
        // 65535ul
        vec![255, 255, 0, 0, 0, 0, 0, 0],
        // 8192
        vec![0, 32],
    ];
    kani::concrete_playback_run(concrete_vals, c17_lru_step_alias_in_range_any_size);
}
