// @gv-module parent=gneiss-mqtt/src/decode.rs name=gv_decode pkg=gneiss-mqtt
//
// Child module of decode.rs. Property C03 (inbound decoding faithful, chunking-invariant, robust), C11 (never a panic).
use super::{Decoder, DecoderState, DecoderDirective, DecodingContext, DecodeVliResult, decode_vli, decode_u16, decode_optional_u16, decode_optional_u32,
    decode_optional_u8_as_bool, decode_length_prefixed_string, decode_optional_length_prefixed_string, decode_optional_length_prefixed_bytes, decode_user_property};
use crate::mqtt::{MqttPacket, ProtocolVersion, PingrespPacket, ConnectReasonCode, PubackReasonCode, PubrecReasonCode, PubrelReasonCode,
    PubcompReasonCode, SubackReasonCode, UnsubackReasonCode, DisconnectReasonCode, QualityOfService, UserProperty,
    convert_311_encoding_to_connect_reason_code, convert_311_encoding_to_suback_reason_code};
use crate::error::{GneissError, GneissResult};
use std::collections::VecDeque;

include!("common.rs");

fn in_set(b: u8, set: &[u8]) -> bool { let mut i = 0; while i < set.len() { if set[i] == b { return true; } i += 1; } false }

// ------------------------------------------------------------------------------------------------
// H1 reason-code tables (OASIS MQTT 5.0 tables 3.2.2.2, 3.4.2.1, 3.5.2.1, 3.6.2.1, 3.7.2.1, 3.9.3, 3.11.3, 3.14.2.1; MQTT 3.1.1 3.2.2.3, 3.9.3)
// ------------------------------------------------------------------------------------------------

const CONNACK_CODES: [u8; 22] = [0, 128, 129, 130, 131, 132, 133, 134, 135, 136, 137, 138, 140, 144, 149, 151, 153, 154, 155, 156, 157, 159];
const PUBACK_CODES: [u8; 9] = [0, 16, 128, 131, 135, 144, 145, 151, 153];
const PUBREL_CODES: [u8; 2] = [0, 146];
const SUBACK_CODES: [u8; 12] = [0, 1, 2, 128, 131, 135, 143, 145, 151, 158, 161, 162];
const UNSUBACK_CODES: [u8; 7] = [0, 17, 128, 131, 135, 143, 145];
const DISCONNECT_CODES: [u8; 29] = [0, 4, 128, 129, 130, 131, 135, 137, 139, 141, 142, 143, 144, 147, 148, 149, 150, 151, 152, 153, 154, 155, 156, 157, 158, 159, 160, 161, 162];

macro_rules! table_harness {
    ($name:ident, $ty:ty, $set:expr) => {
        #[kani::proof]
        #[kani::unwind(32)]
        #[kani::stub(std::fmt::format, stub_format)]
        fn $name() {
            let b: u8 = kani::any();
            let r = <$ty>::try_from(b);
            let legal = in_set(b, &$set);
            kani::cover!(legal, "a legal code");
            kani::cover!(!legal, "an illegal code");
            // accepted iff the specification lists the code for this packet type; the decoded value is that code
            assert!(r.is_ok() == legal, "gv: reason-code table differs from the specification");
            if let Ok(v) = &r { assert!(*v as u8 == b, "gv: decoded reason code has a different numeric value"); }
            std::mem::forget(r);
        }
    };
}

// @gv props=C03,C11 tier=quick required=yes fns=ConnectReasonCode::try_from
// @gv bounds="every byte value 0..255 against table 3.2.2.2"
table_harness!(c03_table_connack, ConnectReasonCode, CONNACK_CODES);

// @gv props=C03,C11 tier=quick required=yes fns=PubackReasonCode::try_from
// @gv bounds="every byte value 0..255 against table 3.4.2.1"
table_harness!(c03_table_puback, PubackReasonCode, PUBACK_CODES);

// @gv props=C03,C11 tier=quick required=yes fns=PubrecReasonCode::try_from
// @gv bounds="every byte value 0..255 against table 3.5.2.1"
table_harness!(c03_table_pubrec, PubrecReasonCode, PUBACK_CODES);

// @gv props=C03,C11 tier=quick required=yes fns=PubrelReasonCode::try_from
// @gv bounds="every byte value 0..255 against table 3.6.2.1"
table_harness!(c03_table_pubrel, PubrelReasonCode, PUBREL_CODES);

// @gv props=C03,C11 tier=quick required=yes fns=PubcompReasonCode::try_from
// @gv bounds="every byte value 0..255 against table 3.7.2.1"
table_harness!(c03_table_pubcomp, PubcompReasonCode, PUBREL_CODES);

// @gv props=C03,C11 tier=quick required=yes fns=SubackReasonCode::try_from
// @gv bounds="every byte value 0..255 against table 3.9.3"
table_harness!(c03_table_suback, SubackReasonCode, SUBACK_CODES);

// @gv props=C03,C11 tier=quick required=yes fns=UnsubackReasonCode::try_from
// @gv bounds="every byte value 0..255 against table 3.11.3"
table_harness!(c03_table_unsuback, UnsubackReasonCode, UNSUBACK_CODES);

// @gv props=C03,C11 tier=quick required=yes fns=DisconnectReasonCode::try_from
// @gv bounds="every byte value 0..255 against table 3.14.2.1"
table_harness!(c03_table_disconnect, DisconnectReasonCode, DISCONNECT_CODES);

// @gv props=C03,C11 tier=quick required=yes fns=convert_311_encoding_to_connect_reason_code,convert_311_encoding_to_suback_reason_code
// @gv bounds="every byte value 0..255 against MQTT 3.1.1 tables 3.2.2.3 (CONNACK return codes 0..5) and 3.9.3 (SUBACK return codes 0,1,2,128)"
#[kani::proof]
#[kani::unwind(8)]
#[kani::stub(std::fmt::format, stub_format)]
fn c03_table_311() {
    let b: u8 = kani::any();
    let r = convert_311_encoding_to_connect_reason_code(b);
    assert!(r.is_ok() == (b <= 5));
    if let Ok(v) = &r {
        // 3.1.1 return codes 1..5 map to the MQTT5 codes with the same meaning
        let want = match b { 0 => ConnectReasonCode::Success, 1 => ConnectReasonCode::UnsupportedProtocolVersion, 2 => ConnectReasonCode::ClientIdentifierNotValid,
                             3 => ConnectReasonCode::ServerUnavailable, 4 => ConnectReasonCode::BadUsernameOrPassword, _ => ConnectReasonCode::NotAuthorized };
        assert!(*v == want);
    }
    let s = convert_311_encoding_to_suback_reason_code(b);
    assert!(s.is_ok() == (b <= 2 || b == 128));
    if let Ok(v) = &s { assert!(*v as u8 == b); }
    std::mem::forget(r); std::mem::forget(s);
}

// ------------------------------------------------------------------------------------------------
// H2 variable byte integer and primitive readers
// ------------------------------------------------------------------------------------------------

// @gv props=C03,C11 tier=quick required=yes fns=decode_vli
// @gv bounds="0..5 fully symbolic bytes (length symbolic)"
#[kani::proof]
#[kani::unwind(7)]
#[kani::stub(std::fmt::format, stub_format)]
fn c03_vli() {
    let buf: [u8; 5] = kani::any();
    let n: usize = kani::any();
    kani::assume(n <= 5);
    let r = decode_vli(&buf[..n]);
    // oracle (MQTT 1.5.5): up to four bytes, 7 data bits each, least significant group first, bit 7 = continuation
    let mut value: u32 = 0;
    let mut used = 0usize;
    let mut complete = false;
    let mut i = 0;
    while i < 4 && i < n && !complete {
        value |= ((buf[i] & 0x7F) as u32) << (7 * i as u32);
        used = i + 1;
        if buf[i] & 0x80 == 0 { complete = true; }
        i += 1;
    }
    let malformed = !complete && n >= 4; // four continuation bytes
    kani::cover!(complete && used == 4, "four-byte integer");
    kani::cover!(malformed, "fifth byte would be needed");
    match &r {
        Ok(DecodeVliResult::Value(v, rest)) => { assert!(complete && *v == value && rest.len() == n - used); }
        Ok(DecodeVliResult::InsufficientData) => { assert!(!complete && !malformed); }
        Err(_) => { assert!(malformed); }
    }
    std::mem::forget(r);
}

// ------------------------------------------------------------------------------------------------
// H4 framing state machine: per-state step lemmas from an arbitrary decoder state
// ------------------------------------------------------------------------------------------------

static mut REC_CALLS: u32 = 0;
static mut REC_FIRST: u8 = 0;
static mut REC_LEN: usize = 0;
static mut REC_SUM: u32 = 0;
static mut REC_FAIL: bool = false;

/// Stand-in for the body dispatcher `decode_packet` (whose 15 body decoders are verified separately): a deterministic
/// function of (first byte, body) that records what it was given; it fails iff the harness says so.
fn stub_decode_packet(first_byte: u8, packet_body: &[u8], _v: ProtocolVersion) -> GneissResult<Box<MqttPacket>> {
    unsafe {
        REC_CALLS += 1; REC_FIRST = first_byte; REC_LEN = packet_body.len();
        let mut s = 0u32; let mut i = 0;
        while i < packet_body.len() { s = s * 31 + packet_body[i] as u32 + 1; i += 1; }
        REC_SUM = s;
        if REC_FAIL { return Err(GneissError::new_decoding_failure("gv: stub body decoder failure")); }
    }
    Ok(Box::new(MqttPacket::Pingresp(PingrespPacket {})))
}

fn mk_decoder(state: DecoderState, scratch: &[u8], first: Option<u8>, remaining: Option<usize>) -> Decoder {
    let mut v: Vec<u8> = Vec::with_capacity(8);
    let mut i = 0;
    while i < scratch.len() { v.push(scratch[i]); i += 1; }
    Decoder { state, scratch: v, first_byte: first, remaining_length: remaining }
}

fn vbi_value(bytes: &[u8]) -> u32 { let mut v = 0u32; let mut i = 0; while i < bytes.len() { v |= ((bytes[i] & 0x7F) as u32) << (7 * i as u32); i += 1; } v }

/// remaining-length state with k continuation bytes already buffered, one new byte b, `rest` further bytes in this read
fn rl_step_body(k: usize, rest: usize) {
    let pre: [u8; 3] = kani::any();
    kani::assume(pre[0] >= 0x80 && pre[1] >= 0x80 && pre[2] >= 0x80);
    let input: [u8; 2] = kani::any();
    let b = input[0];
    let max: u32 = kani::any();
    let mut d = mk_decoder(DecoderState::ReadTotalRemainingLength, &pre[..k], Some(kani::any()), None);
    let mut q: VecDeque<Box<MqttPacket>> = VecDeque::new();
    let ctx = DecodingContext { maximum_packet_size: max, protocol_version: ProtocolVersion::Mqtt5, decoded_packets: &mut q };
    let (dir, left) = d.process_read_total_remaining_length(&input[..1 + rest], &ctx);
    // consumes exactly one byte
    assert!(left.len() == rest);
    let mut all = [0u8; 4];
    let mut i = 0; while i < k { all[i] = pre[i]; i += 1; }
    all[k] = b;
    if b < 0x80 {
        // length complete: value per 1.5.5; the announced total (1 + length bytes + remaining length) is checked against the
        // maximum in force BEFORE any body byte is buffered
        let value = vbi_value(&all[..k + 1]);
        let total = value as u64 + 1 + (k as u64 + 1);
        let limit = if max == 0 { 268_435_455u64 } else { max as u64 };
        kani::cover!(total > limit, "announced size above the maximum");
        kani::cover!(total == limit, "announced size exactly at the maximum");
        if total <= limit {
            assert!(matches!(dir, DecoderDirective::Continue));
            assert!(d.state == DecoderState::ReadPacketBody && d.remaining_length == Some(value as usize) && d.scratch.is_empty());
        } else {
            assert!(matches!(dir, DecoderDirective::TerminalError(_)), "gv: oversize packet must be rejected when its header is complete");
            assert!(d.remaining_length.is_none());
        }
    } else if k == 3 {
        // a fourth continuation byte is malformed: error now, whatever follows and however the stream is chunked
        assert!(matches!(dir, DecoderDirective::TerminalError(_)), "gv: a fourth continuation byte in the remaining length must be an error for every chunking");
    } else {
        assert!(d.state == DecoderState::ReadTotalRemainingLength && d.scratch.len() == k + 1 && d.scratch[k] == b && d.remaining_length.is_none());
        if rest > 0 { assert!(matches!(dir, DecoderDirective::Continue)); } else { assert!(matches!(dir, DecoderDirective::OutOfData)); }
    }
    std::mem::forget(dir); std::mem::forget(d); std::mem::forget(q);
}

// @gv props=C03,C11 tier=quick required=yes fns=Decoder::process_read_packet_type
// @gv bounds="type state, 0..2 symbolic input bytes (length symbolic)"
#[kani::proof]
#[kani::unwind(10)]
#[kani::stub(std::fmt::format, stub_format)]
fn c03_frame_type_step() {
    let input: [u8; 2] = kani::any();
    let n: usize = kani::any();
    kani::assume(n <= 2);
    let mut d = mk_decoder(DecoderState::ReadPacketType, &[], None, None);
    let (dir, left) = d.process_read_packet_type(&input[..n]);
    if n == 0 {
        assert!(matches!(dir, DecoderDirective::OutOfData) && d.state == DecoderState::ReadPacketType && d.first_byte.is_none());
    } else {
        assert!(matches!(dir, DecoderDirective::Continue) && d.state == DecoderState::ReadTotalRemainingLength && d.first_byte == Some(input[0]) && left.len() == n - 1);
    }
    std::mem::forget(dir); std::mem::forget(d);
}

/// body state: remaining length R, s bytes already buffered, n bytes in this read (all concrete per harness), contents symbolic
fn body_step_body(r_len: usize, s: usize, n: usize) {
    let pre: [u8; 4] = kani::any();
    let input: [u8; 4] = kani::any();
    let first: u8 = kani::any();
    let fail: bool = kani::any();
    unsafe { REC_FAIL = fail; REC_CALLS = 0; }
    let mut d = mk_decoder(DecoderState::ReadPacketBody, &pre[..s], Some(first), Some(r_len));
    let mut q: VecDeque<Box<MqttPacket>> = VecDeque::with_capacity(4);
    let (dir, left_len) = {
        let mut ctx = DecodingContext { maximum_packet_size: 0, protocol_version: ProtocolVersion::Mqtt5, decoded_packets: &mut q };
        let (dir, left) = d.process_read_packet_body(&input[..n], &mut ctx);
        (dir, left.len())
    };
    let needed = r_len - s;
    if needed > n {
        // not enough yet: everything is buffered, nothing is decoded
        assert!(matches!(dir, DecoderDirective::OutOfData) && left_len == 0);
        assert!(d.scratch.len() == s + n && unsafe { REC_CALLS } == 0 && q.is_empty());
        let mut i = 0; while i < n { assert!(d.scratch[s + i] == input[i]); i += 1; }
    } else {
        // the body decoder sees exactly the frame: first byte, and the R body bytes in stream order, once
        let mut want = 0u32; let mut i = 0;
        while i < s { want = want * 31 + pre[i] as u32 + 1; i += 1; }
        let mut i = 0; while i < needed { want = want * 31 + input[i] as u32 + 1; i += 1; }
        assert!(unsafe { REC_CALLS } == 1 && unsafe { REC_FIRST } == first && unsafe { REC_LEN } == r_len && unsafe { REC_SUM } == want);
        if fail {
            assert!(matches!(dir, DecoderDirective::TerminalError(_)) && q.is_empty());
        } else {
            assert!(matches!(dir, DecoderDirective::Continue) && q.len() == 1 && left_len == n - needed);
            assert!(d.state == DecoderState::ReadPacketType && d.scratch.is_empty() && d.first_byte.is_none() && d.remaining_length.is_none());
        }
    }
    std::mem::forget(dir); std::mem::forget(d); std::mem::forget(q);
}

// ------------------------------------------------------------------------------------------------
// H4b the driver loop: chunking invariance on short streams, absorbing error state
// ------------------------------------------------------------------------------------------------

static mut REC_CHAIN: u32 = 0;
/// as stub_decode_packet, but fails iff the first body byte is 0xFF (a pure function of the frame) and chains every frame it sees
fn stub_decode_packet_chain(first_byte: u8, packet_body: &[u8], _v: ProtocolVersion) -> GneissResult<Box<MqttPacket>> {
    unsafe {
        REC_CALLS += 1;
        let mut s = REC_CHAIN * 131 + first_byte as u32 + 7;
        let mut i = 0;
        while i < packet_body.len() { s = s * 31 + packet_body[i] as u32 + 1; i += 1; }
        REC_CHAIN = s;
    }
    if packet_body.len() > 0 && packet_body[0] == 0xFF { return Err(GneissError::new_decoding_failure("gv: stub body decoder failure")); }
    Ok(Box::new(MqttPacket::Pingresp(PingrespPacket {})))
}

fn run_chunks(bytes: &[u8], split: usize, max: u32) -> (bool, u32, u32, DecoderState, usize, Option<u8>, Option<usize>) {
    unsafe { REC_CALLS = 0; REC_CHAIN = 0; }
    let mut d = mk_decoder(DecoderState::ReadPacketType, &[], None, None);
    let mut q: VecDeque<Box<MqttPacket>> = VecDeque::with_capacity(8);
    let ok = {
        let mut c = DecodingContext { maximum_packet_size: max, protocol_version: ProtocolVersion::Mqtt311, decoded_packets: &mut q };
        let r1 = d.decode_bytes(&bytes[..split], &mut c);
        let ok1 = r1.is_ok();
        std::mem::forget(r1);
        // a driver stops feeding a connection after the first error; feeding on must keep failing (absorbing), checked separately
        if ok1 { let r2 = d.decode_bytes(&bytes[split..], &mut c); let ok2 = r2.is_ok(); std::mem::forget(r2); ok2 } else { false }
    };
    let out = (ok, unsafe { REC_CALLS }, unsafe { REC_CHAIN }, d.state, d.scratch.len(), d.first_byte, d.remaining_length);
    std::mem::forget(d); std::mem::forget(q);
    out
}

fn chunking_body(n: usize) {
    let bytes: [u8; 4] = kani::any();
    // keep announced bodies within the 8-byte scratch buffer of the harness decoder (no reallocation): remaining length <= 3
    kani::assume(bytes[1] <= 3 || bytes[1] >= 0x80);
    let split: usize = kani::any();
    kani::assume(split <= n);
    let max: u32 = kani::any();
    let whole = run_chunks(&bytes[..n], n, max);
    let parts = run_chunks(&bytes[..n], split, max);
    kani::cover!(whole.1 >= 1 && split > 0 && split < n, "a frame decoded across a split");
    kani::cover!(!whole.0, "stream rejected");
    // same frames, same verdict, same resumable state however the stream is chunked
    assert!(whole.0 == parts.0 && whole.1 == parts.1 && whole.2 == parts.2, "gv: frames or verdict depend on the chunking of the stream");
    if whole.0 { assert!(whole.3 == parts.3 && whole.4 == parts.4 && whole.5 == parts.5 && whole.6 == parts.6, "gv: decoder state depends on the chunking of the stream"); }
}

// (whole-loop harnesses are stretch: the driver loop reassigns a DecoderDirective that may hold a GneissError in every
//  iteration, and the drop glue of that error is what CBMC cannot get through -- no verdict in 15-25 min even for 2 bytes)
// @gv props=C03,C11 tier=thorough required=no fns=Decoder::decode_bytes,Decoder::process_read_packet_type,Decoder::process_read_total_remaining_length,Decoder::process_read_packet_body
// @gv bounds="every 2-byte stream (type byte, remaining-length byte <= 3 or a continuation byte) fed whole vs split at every position; symbolic maximum packet size; body dispatcher stubbed by a deterministic recorder"
// @gv timeout=1200 mem=6
#[kani::proof]
#[kani::unwind(10)]
#[kani::stub(std::fmt::format, stub_format)]
#[kani::stub(super::decode_packet, stub_decode_packet_chain)]
fn c03_chunking_2() { chunking_body(2) }

// @gv props=C03,C11 tier=thorough required=no fns=Decoder::decode_bytes,Decoder::process_read_packet_type,Decoder::process_read_total_remaining_length,Decoder::process_read_packet_body
// @gv bounds="every 3-byte stream (remaining-length byte <= 3 or a continuation byte) fed whole vs split at every position; symbolic maximum packet size; body dispatcher stubbed by a deterministic recorder"
// @gv timeout=3000 mem=16
#[kani::proof]
#[kani::unwind(10)]
#[kani::stub(std::fmt::format, stub_format)]
#[kani::stub(super::decode_packet, stub_decode_packet_chain)]
fn c03_chunking_3() { chunking_body(3) }

// @gv props=C03,C11 tier=thorough required=no fns=Decoder::decode_bytes
// @gv bounds="every 4-byte stream (remaining-length byte <= 3 or a continuation byte) fed whole vs split at every position"
// @gv timeout=2400 mem=16
#[kani::proof]
#[kani::unwind(12)]
#[kani::stub(std::fmt::format, stub_format)]
#[kani::stub(super::decode_packet, stub_decode_packet_chain)]
fn c03_chunking_4() { chunking_body(4) }

// @gv props=C03,C11,C07 tier=quick required=yes fns=Decoder::reset_for_new_connection,Decoder::reset
// @gv bounds="decoder in any of its four states (incl. the terminal error state latched by the previous connection) with 0..3 leftover buffered bytes and symbolic first byte / remaining length: a new connection always starts from the initial state"
#[kani::proof]
#[kani::unwind(8)]
#[kani::stub(std::fmt::format, stub_format)]
fn c03_reset_for_new_connection() {
    let st = match kani::any::<u8>() % 4 { 0 => DecoderState::ReadPacketType, 1 => DecoderState::ReadTotalRemainingLength, 2 => DecoderState::ReadPacketBody, _ => DecoderState::TerminalError };
    let pre: [u8; 3] = kani::any();
    let k: usize = kani::any();
    kani::assume(k <= 3);
    let mut d = mk_decoder(st, &pre[..k], if kani::any() { Some(kani::any()) } else { None }, if kani::any() { Some(kani::any::<u16>() as usize) } else { None });
    kani::cover!(st == DecoderState::TerminalError, "previous connection ended with a decode error");
    d.reset_for_new_connection();
    assert!(d.state == DecoderState::ReadPacketType, "gv: a new connection must start with a fresh decoder whatever happened on the previous one");
    assert!(d.scratch.is_empty() && d.first_byte.is_none() && d.remaining_length.is_none());
    std::mem::forget(d);
}

// @gv props=C03,C11 tier=quick required=yes fns=Decoder::decode_bytes
// @gv bounds="decoder already in the terminal error state, any 0..2 further bytes: error again, nothing decoded, state unchanged"
#[kani::proof]
#[kani::unwind(8)]
#[kani::stub(std::fmt::format, stub_format)]
#[kani::stub(super::decode_packet, stub_decode_packet_chain)]
fn c03_error_absorbing() {
    unsafe { REC_CALLS = 0; }
    let mut d = mk_decoder(DecoderState::TerminalError, &[], None, None);
    let mut q: VecDeque<Box<MqttPacket>> = VecDeque::with_capacity(4);
    let bytes: [u8; 2] = kani::any();
    let n: usize = kani::any();
    kani::assume(n <= 2);
    let r = { let mut c = DecodingContext { maximum_packet_size: 0, protocol_version: ProtocolVersion::Mqtt5, decoded_packets: &mut q }; d.decode_bytes(&bytes[..n], &mut c) };
    assert!(r.is_err() && d.state == DecoderState::TerminalError && q.is_empty() && unsafe { REC_CALLS } == 0);
    std::mem::forget(r); std::mem::forget(d); std::mem::forget(q);
}

// ------------------------------------------------------------------------------------------------
// H5 body decoders on bodies of CONCRETE length with symbolic bytes (stretch: the MQTT5 decoders' error exits drop a
// half-built Box<MqttPacket>, which is what did not finish in the probes)
// ------------------------------------------------------------------------------------------------

fn ack5_body(kind: u8, len: usize) {
    let first: u8 = kani::any();
    let body: [u8; 4] = kani::any();
    let r = match kind {
        0 => crate::mqtt::puback::decode_puback_packet5(first, &body[..len]),
        1 => crate::mqtt::pubrec::decode_pubrec_packet5(first, &body[..len]),
        2 => crate::mqtt::pubrel::decode_pubrel_packet5(first, &body[..len]),
        _ => crate::mqtt::pubcomp::decode_pubcomp_packet5(first, &body[..len]),
    };
    let want_first = match kind { 0 => 0x40, 1 => 0x50, 2 => 0x62, _ => 0x70 };
    let code_ok = if len >= 3 { if kind < 2 { in_set(body[2], &PUBACK_CODES) } else { in_set(body[2], &PUBREL_CODES) } } else { true };
    let props_ok = if len >= 4 { body[3] == 0 } else { true };
    let expect = first == want_first && code_ok && props_ok;
    kani::cover!(expect, "well-formed acknowledgement");
    kani::cover!(!expect, "malformed acknowledgement");
    assert!(r.is_ok() == expect, "gv: an acknowledgement body is accepted iff it is well-formed");
    if let Ok(p) = &r {
        let (pid, rc) = match &**p { MqttPacket::Puback(x) => (x.packet_id, x.reason_code as u8), MqttPacket::Pubrec(x) => (x.packet_id, x.reason_code as u8),
                                      MqttPacket::Pubrel(x) => (x.packet_id, x.reason_code as u8), MqttPacket::Pubcomp(x) => (x.packet_id, x.reason_code as u8), _ => { assert!(false); (0, 0) } };
        assert!(pid == ((body[0] as u16) << 8 | body[1] as u16), "gv: packet id decoded faithfully");
        assert!(rc == if len >= 3 { body[2] } else { 0 }, "gv: reason code decoded faithfully (absent = success)");
    }
    std::mem::forget(r);
}

// @gv props=C03,C11,C01 tier=thorough required=no fns=decode_puback_packet5,decode_pubrec_packet5,decode_pubrel_packet5,decode_pubcomp_packet5
// @gv bounds="MQTT5 PUBACK/PUBREC/PUBREL/PUBCOMP (symbolic choice) with a 2-byte body (packet id only), symbolic first byte"
// @gv timeout=1800 mem=16
#[kani::proof]
#[kani::unwind(12)]
#[kani::stub(std::fmt::format, stub_format)]
fn c03_body_ack5_len2() { let k: u8 = kani::any(); kani::assume(k < 4); ack5_body(k, 2) }

// @gv props=C03,C11,C01 tier=thorough required=no fns=decode_puback_packet5
// @gv bounds="MQTT5 PUBACK with a 3-byte body (packet id + reason code), all bytes symbolic"
// @gv timeout=1800 mem=16
#[kani::proof]
#[kani::unwind(12)]
#[kani::stub(std::fmt::format, stub_format)]
fn c03_body_puback5_len3() { ack5_body(0, 3) }

// @gv props=C03,C11,C01 tier=thorough required=no fns=decode_pubcomp_packet5
// @gv bounds="MQTT5 PUBCOMP with a 4-byte body (packet id + reason code + property length), all bytes symbolic"
// @gv timeout=1800 mem=16
#[kani::proof]
#[kani::unwind(12)]
#[kani::stub(std::fmt::format, stub_format)]
fn c03_body_pubcomp5_len4() { ack5_body(3, 4) }

// @gv props=C03,C11,C07 tier=thorough required=no fns=decode_connack_packet311
// @gv bounds="MQTT 3.1.1 CONNACK with a body of symbolic length 0..3 and symbolic bytes"
// @gv timeout=1800 mem=16
#[kani::proof]
#[kani::unwind(8)]
#[kani::stub(std::fmt::format, stub_format)]
fn c03_body_connack311() {
    let first: u8 = kani::any();
    let body: [u8; 3] = kani::any();
    let len: usize = kani::any();
    kani::assume(len <= 3);
    let r = crate::mqtt::connack::decode_connack_packet311(first, &body[..len]);
    let expect = first == 0x20 && len == 2 && body[0] <= 1 && body[1] <= 5;
    kani::cover!(expect, "well-formed CONNACK");
    assert!(r.is_ok() == expect, "gv: a 3.1.1 CONNACK is accepted iff flags are 0/1 and the return code is 0..5");
    if let Ok(p) = &r { match &**p { MqttPacket::Connack(c) => { assert!(c.session_present == (body[0] == 1)); }, _ => assert!(false) } }
    std::mem::forget(r);
}

// ------------------------------------------------------------------------------------------------
// H2b primitive readers on hostile input: bounds-checked, duplicate detection, never a panic
// ------------------------------------------------------------------------------------------------

fn be16(b: &[u8]) -> usize { ((b[0] as usize) << 8) | b[1] as usize }

// @gv props=C03,C11 tier=quick required=yes fns=decode_optional_length_prefixed_bytes
// @gv bounds="binary-data property reader on 0..6 symbolic bytes (length symbolic), value slot empty or already filled (duplicate)"
#[kani::proof]
#[kani::unwind(9)]
#[kani::stub(std::fmt::format, stub_format)]
fn c03_reader_binary() {
    let buf: [u8; 6] = kani::any();
    let n: usize = kani::any();
    kani::assume(n <= 6);
    let dup: bool = kani::any();
    let mut value: Option<Vec<u8>> = if dup { Some(Vec::new()) } else { None };
    let r = decode_optional_length_prefixed_bytes(&buf[..n], &mut value);
    let fits = n >= 2 && be16(&buf) <= n - 2;
    kani::cover!(n >= 2 && be16(&buf) == n - 1, "declared length overstates the remaining bytes by one");
    kani::cover!(fits && !dup && be16(&buf) == 4, "whole remainder consumed");
    // truncated or duplicated -> error (never a panic); otherwise exactly the declared bytes, rest returned
    assert!(r.is_ok() == (fits && !dup), "gv: a binary property is accepted iff its declared length fits and it is not a duplicate");
    if let Ok(rest) = &r {
        let len = be16(&buf);
        assert!(rest.len() == n - 2 - len);
        let v = value.as_ref().unwrap();
        assert!(v.len() == len);
        let mut i = 0;
        while i < 4 { if i < len { assert!(v[i] == buf[2 + i]); } i += 1; }
    }
    std::mem::forget(r); std::mem::forget(value);
}

// @gv props=C03,C11 tier=quick required=yes fns=decode_optional_length_prefixed_string,decode_length_prefixed_string
// @gv bounds="UTF-8 string readers on 0..6 symbolic ASCII bytes (length symbolic), optional slot empty or already filled"
#[kani::proof]
#[kani::unwind(9)]
#[kani::stub(std::fmt::format, stub_format)]
fn c03_reader_string() {
    let buf: [u8; 6] = kani::any();
    kani::assume(buf[2] < 0x80 && buf[3] < 0x80 && buf[4] < 0x80 && buf[5] < 0x80);
    let n: usize = kani::any();
    kani::assume(n <= 6);
    let dup: bool = kani::any();
    let mut value: Option<String> = if dup { Some(String::new()) } else { None };
    let r = decode_optional_length_prefixed_string(&buf[..n], &mut value);
    let fits = n >= 2 && be16(&buf) <= n - 2;
    assert!(r.is_ok() == (fits && !dup), "gv: a string property is accepted iff its declared length fits and it is not a duplicate");
    if let Ok(rest) = &r { assert!(rest.len() == n - 2 - be16(&buf) && value.as_ref().unwrap().len() == be16(&buf)); }
    let mut plain = String::new();
    let r2 = decode_length_prefixed_string(&buf[..n], &mut plain);
    assert!(r2.is_ok() == fits);
    if let Ok(rest) = &r2 { assert!(rest.len() == n - 2 - be16(&buf) && plain.len() == be16(&buf)); if plain.len() > 0 { assert!(plain.as_bytes()[0] == buf[2]); } }
    std::mem::forget(r); std::mem::forget(r2); std::mem::forget(value); std::mem::forget(plain);
}

// @gv props=C03,C11 tier=quick required=yes fns=decode_u16,decode_optional_u16,decode_optional_u32,decode_optional_u8_as_bool
// @gv bounds="fixed-width readers on 0..5 symbolic bytes (length symbolic), optional slots empty or already filled"
#[kani::proof]
#[kani::unwind(8)]
#[kani::stub(std::fmt::format, stub_format)]
fn c03_reader_integers() {
    let buf: [u8; 5] = kani::any();
    let n: usize = kani::any();
    kani::assume(n <= 5);
    let dup: bool = kani::any();
    let mut a: u16 = 0;
    let r1 = decode_u16(&buf[..n], &mut a);
    assert!(r1.is_ok() == (n >= 2));
    if let Ok(rest) = &r1 { assert!(a as usize == be16(&buf) && rest.len() == n - 2); }
    let mut b: Option<u16> = if dup { Some(7) } else { None };
    let r2 = decode_optional_u16(&buf[..n], &mut b);
    assert!(r2.is_ok() == (n >= 2 && !dup));
    if r2.is_ok() { assert!(b == Some(be16(&buf) as u16)); }
    let mut c: Option<u32> = if dup { Some(7) } else { None };
    let r3 = decode_optional_u32(&buf[..n], &mut c);
    assert!(r3.is_ok() == (n >= 4 && !dup));
    if r3.is_ok() { assert!(c == Some(((buf[0] as u32) << 24) | ((buf[1] as u32) << 16) | ((buf[2] as u32) << 8) | buf[3] as u32)); }
    let mut d: Option<bool> = if dup { Some(true) } else { None };
    let r4 = decode_optional_u8_as_bool(&buf[..n], &mut d);
    // MQTT5 byte-valued flags: only 0 and 1 are legal
    assert!(r4.is_ok() == (n >= 1 && !dup && buf[0] <= 1), "gv: a boolean property is 0 or 1, present once");
    if r4.is_ok() { assert!(d == Some(buf[0] == 1)); }
    std::mem::forget(r1); std::mem::forget(r2); std::mem::forget(r3); std::mem::forget(r4);
}

// @gv props=C03,C11 tier=thorough required=no fns=decode_user_property
// @gv bounds="user-property reader on 0..7 symbolic ASCII bytes (length symbolic)"
// @gv timeout=1800 mem=16
#[kani::proof]
#[kani::unwind(10)]
#[kani::stub(std::fmt::format, stub_format)]
fn c03_reader_user_property() {
    let buf: [u8; 7] = kani::any();
    kani::assume(buf[2] < 0x80 && buf[3] < 0x80 && buf[4] < 0x80 && buf[5] < 0x80 && buf[6] < 0x80);
    let n: usize = kani::any();
    kani::assume(n <= 7);
    let mut props: Option<Vec<UserProperty>> = None;
    let r = decode_user_property(&buf[..n], &mut props);
    // name: 2-byte length + bytes; value: 2-byte length + bytes
    let mut ok = false;
    let mut rest_len = 0;
    if n >= 2 {
        let l1 = be16(&buf);
        if l1 <= n - 2 && n - 2 - l1 >= 2 {
            let o = 2 + l1;
            let l2 = ((buf[o] as usize) << 8) | buf[o + 1] as usize;
            if l2 <= n - o - 2 { ok = true; rest_len = n - o - 2 - l2; }
        }
    }
    kani::cover!(ok, "complete user property");
    assert!(r.is_ok() == ok, "gv: a user property is accepted iff both length-prefixed strings fit");
    if let Ok(rest) = &r { assert!(rest.len() == rest_len && props.as_ref().unwrap().len() == 1); }
    std::mem::forget(r); std::mem::forget(props);
}

include!("decode_gen.rs");
