// Shared helpers for harness modules (included with `#[path] mod common;` is not possible from
// several parents, so each harness file `include!`s this file).
#[allow(dead_code)]
pub(crate) fn stub_format(_args: std::fmt::Arguments<'_>) -> String { String::new() }

#[allow(dead_code)]
pub(crate) fn zero_instant() -> std::time::Instant { unsafe { std::mem::transmute::<[u8; 16], std::time::Instant>([0u8; 16]) } }

/// Arbitrary Duration assembled from separately symbolic seconds and nanoseconds (never from_millis of a symbol).
#[allow(dead_code)]
pub(crate) fn any_duration() -> std::time::Duration {
    let s: u64 = kani::any();
    let n: u32 = kani::any();
    kani::assume(n < 1_000_000_000);
    std::time::Duration::new(s, n)
}

#[allow(dead_code)]
pub(crate) fn stub_random_state_new() -> std::hash::RandomState {
    unsafe { std::mem::transmute::<[u64; 2], std::hash::RandomState>([1u64, 2u64]) }
}
