use super::{ProtocolState, ProtocolStateConfig, ProtocolStateType, NetworkEventContext, NetworkEvent, PacketEvent};
use crate::mqtt::{MqttPacket, PublishPacket, QualityOfService, UserProperty, PubackPacket};
use crate::client::config::{ConnectOptions, OfflineQueuePolicy, ProtocolMode, PostReconnectQueueDrainPolicy};
use std::collections::VecDeque;
use std::time::{Duration, Instant};

fn stub_format(_args: std::fmt::Arguments<'_>) -> String { String::new() }

fn zero_instant() -> Instant { unsafe { std::mem::transmute::<[u8; 16], Instant>([0u8; 16]) } }

fn mk_config() -> ProtocolStateConfig {
    ProtocolStateConfig {
        connect_options: ConnectOptions::builder().build(),
        base_timestamp: zero_instant(),
        offline_queue_policy: OfflineQueuePolicy::PreserveAll,
        ping_timeout: Duration::from_millis(30000),
        outbound_alias_resolver: None,
        protocol_mode: ProtocolMode::Mqtt5,
        post_reconnect_queue_drain_policy: PostReconnectQueueDrainPolicy::None,
        max_interrupted_retries: None,
    }
}

fn sym_string(max: usize) -> String {
    let n: usize = kani::any();
    kani::assume(n <= max);
    unsafe { String::from_utf8_unchecked(vec![0u8; n]) }
}

#[kani::proof]
#[kani::unwind(5)]
#[kani::stub(std::fmt::format, stub_format)]
fn probe3_validate_publish_lengths() {
    let tl: usize = kani::any();
    kani::assume(tl <= 2);
    let tb: [u8; 2] = kani::any();
    kani::assume(tb[0] < 0x80 && tb[1] < 0x80);
    let topic = unsafe { String::from_utf8_unchecked(tb[..tl].to_vec()) };
    let ct = sym_string(70000);
    let up_name = sym_string(70000);
    let up_value = sym_string(70000);
    let ct_len = ct.len(); let n_len = up_name.len(); let v_len = up_value.len();
    let packet = PublishPacket {
        topic,
        qos: QualityOfService::AtLeastOnce,
        content_type: Some(ct),
        user_properties: Some(vec![UserProperty { name: up_name, value: up_value }]),
        ..Default::default()
    };
    let r = crate::mqtt::publish::validate_publish_packet_outbound(&packet);
    let mut topic_ok = tl >= 1;
    let mut i = 0;
    while i < tl { if tb[i] == b'#' || tb[i] == b'+' { topic_ok = false; } i += 1; }
    let expect_ok = topic_ok && ct_len <= 65535 && n_len <= 65535 && v_len <= 65535;
    let ok = r.is_ok();
    std::mem::forget(r);
    std::mem::forget(packet);
    assert!(ok == expect_ok);
}

#[kani::proof]
#[kani::unwind(3)]
#[kani::stub(std::fmt::format, stub_format)]
fn probe3_handle_publish_step() {
    let mut state = ProtocolState::new(mk_config());
    state.state = ProtocolStateType::Connected;
    let known: u16 = kani::any();
    let has_known: bool = kani::any();
    if has_known { state.qos2_incomplete_incoming_publishes.insert(known); }
    let pid: u16 = kani::any();
    let q: u8 = kani::any(); kani::assume(q < 3);
    let qos = match q { 0 => QualityOfService::AtMostOnce, 1 => QualityOfService::AtLeastOnce, _ => QualityOfService::ExactlyOnce };
    let publish = PublishPacket { packet_id: pid, qos, duplicate: kani::any(), ..Default::default() };
    let mut events: VecDeque<PacketEvent> = VecDeque::new();
    let base = zero_instant();
    let r = {
        let mut ctx = NetworkEventContext { event: NetworkEvent::WriteCompletion, current_time: base, packet_events: &mut events };
        state.handle_publish(Box::new(MqttPacket::Publish(publish)), &mut ctx)
    };
    assert!(r.is_ok());
    let surfaced = events.len() == 1;
    let dup_qos2 = q == 2 && has_known && known == pid;
    assert!(surfaced == !dup_qos2);
    assert!(state.high_priority_operation_queue.len() == if q == 0 { 0 } else { 1 });
    if q >= 1 {
        let op_id = *state.high_priority_operation_queue.front().unwrap();
        let op = state.operations.get(&op_id).unwrap();
        match &*op.packet {
            MqttPacket::Puback(p) => { assert!(q == 1 && p.packet_id == pid); }
            MqttPacket::Pubrec(p) => { assert!(q == 2 && p.packet_id == pid); }
            _ => { assert!(false); }
        }
    }
    if q == 2 { assert!(state.qos2_incomplete_incoming_publishes.contains(&pid)); }
    std::mem::forget(events);
    std::mem::forget(state);
}

#[kani::proof]
#[kani::unwind(3)]
fn probe3_drop_boxed_packet() {
    let p: Box<MqttPacket> = Box::new(MqttPacket::Puback(PubackPacket { packet_id: kani::any(), ..Default::default() }));
    let mut v: Vec<Box<MqttPacket>> = Vec::new();
    v.push(p);
    let q = v.pop().unwrap();
    drop(q);
}

use super::{ClientOperation, ClientOperationOptions, ServiceContext, ConnectionOpenedContext};
use crate::client::{PublishOptionsInternal, PublishOptions, ResponseHandler, PublishResult};

static mut CALLS: u32 = 0;
static mut OKS: u32 = 0;

fn mk_publish_op(id: u64, pid: u16, qos: QualityOfService) -> ClientOperation {
    let handler: ResponseHandler<PublishResult> = Box::new(move |res| {
        unsafe { CALLS += 1; if res.is_ok() { OKS += 1; } }
        std::mem::forget(res);
        Ok(())
    });
    ClientOperation {
        id,
        packet: Box::new(MqttPacket::Publish(PublishPacket { packet_id: pid, qos, ..Default::default() })),
        qos2_pubrel: None,
        packet_id: Some(pid),
        options: Some(ClientOperationOptions::Publish(PublishOptionsInternal { options: PublishOptions::default(), response_handler: Some(handler) })),
        ping_extension_base_timepoint: None,
        slow_start_ack_value: 0,
        interruption_count: 0,
    }
}

#[kani::proof]
#[kani::unwind(3)]
#[kani::stub(std::fmt::format, stub_format)]
fn probe3_handle_puback_step() {
    let mut state = ProtocolState::new(mk_config());
    state.state = ProtocolStateType::Connected;
    let pid: u16 = kani::any();
    kani::assume(pid != 0);
    let qos = if kani::any() { QualityOfService::AtLeastOnce } else { QualityOfService::ExactlyOnce };
    state.operations.insert(7, mk_publish_op(7, pid, qos));
    state.allocated_packet_ids.insert(pid, 7);
    state.pending_publish_operations.insert(pid, 7);
    let ack_id: u16 = kani::any();
    let r = state.handle_puback(Box::new(MqttPacket::Puback(PubackPacket { packet_id: ack_id, ..Default::default() })));
    let ok = r.is_ok();
    std::mem::forget(r);
    let calls = unsafe { CALLS };
    if ack_id == pid && qos == QualityOfService::AtLeastOnce {
        assert!(ok);
        assert!(calls == 1);
        assert!(state.operations.len() == 0);
        assert!(state.allocated_packet_ids.len() == 0);
        assert!(state.pending_publish_operations.len() == 0);
    } else {
        assert!(!ok);
        assert!(calls == 0);
        assert!(state.operations.len() == 1);
    }
    std::mem::forget(state);
}

#[kani::proof]
#[kani::unwind(10)]
#[kani::stub(std::fmt::format, stub_format)]
fn probe3_open_and_service() {
    let mut state = ProtocolState::new(mk_config());
    let base = zero_instant();
    let mut events: VecDeque<PacketEvent> = VecDeque::new();
    let ok1 = {
        let mut ctx = NetworkEventContext {
            event: NetworkEvent::ConnectionOpened(ConnectionOpenedContext { establishment_timeout: base + Duration::from_secs(30) }),
            current_time: base,
            packet_events: &mut events,
        };
        let r = state.handle_network_event(&mut ctx);
        let ok = r.is_ok(); std::mem::forget(r); ok
    };
    assert!(ok1);
    assert!(state.state == ProtocolStateType::PendingConnack);
    let mut to_socket = Vec::with_capacity(64);
    let ok2 = {
        let mut sctx = ServiceContext { to_socket: &mut to_socket, current_time: base };
        let r = state.service(&mut sctx);
        let ok = r.is_ok(); std::mem::forget(r); ok
    };
    assert!(ok2);
    assert!(to_socket.len() > 0);
    assert!(to_socket[0] == 0x10);
    std::mem::forget(state);
    std::mem::forget(events);
}

use super::sort_operation_deque;
use crate::encode::{Encoder, EncodingContext, EncodeResult};
use crate::decode::{Decoder, DecodingContext};
use crate::alias::OutboundAliasResolution;
use crate::mqtt::{ProtocolVersion, PubackReasonCode};

// sort: concrete ring layout (cap 4, head offset 3, 3 elements -> wrapped), symbolic values
#[kani::proof]
#[kani::unwind(6)]
fn probe3_sort_deque_wrapped() {
    let mut d: VecDeque<u64> = VecDeque::with_capacity(4);
    d.push_back(0); d.push_back(0); d.push_back(0);
    d.pop_front(); d.pop_front(); d.pop_front();
    let a: u64 = kani::any(); let b: u64 = kani::any(); let c: u64 = kani::any();
    d.push_back(a); d.push_back(b); d.push_back(c);
    kani::cover!(d.as_slices().1.len() > 0, "ring buffer is wrapped");
    sort_operation_deque(&mut d);
    assert!(d.len() == 3);
    assert!(d[0] <= d[1] && d[1] <= d[2]);
    let lo = if a <= b { if a <= c { a } else { c } } else { if b <= c { b } else { c } };
    let hi = if a >= b { if a >= c { a } else { c } } else { if b >= c { b } else { c } };
    assert!(d[0] == lo && d[2] == hi);
    assert!(d[0].wrapping_add(d[1]).wrapping_add(d[2]) == a.wrapping_add(b).wrapping_add(c));
    std::mem::forget(d);
}

#[kani::proof]
#[kani::unwind(8)]
#[kani::stub(std::fmt::format, stub_format)]
fn probe3_encode_puback5_cap4() {
    let pid: u16 = kani::any();
    let rc = if kani::any() { PubackReasonCode::Success } else { PubackReasonCode::NotAuthorized };
    let packet = MqttPacket::Puback(PubackPacket { packet_id: pid, reason_code: rc, ..Default::default() });
    let mut enc = Encoder::new();
    let ctx = EncodingContext { outbound_alias_resolution: OutboundAliasResolution::default(), protocol_version: ProtocolVersion::Mqtt5 };
    let r0 = enc.reset(&packet, &ctx);
    let ok = r0.is_ok(); std::mem::forget(r0);
    assert!(ok);
    let mut out: [u8; 8] = [0; 8];
    let mut n = 0usize;
    let mut rounds = 0;
    loop {
        let mut dest: Vec<u8> = Vec::with_capacity(4);
        let r = enc.encode(&packet, &mut dest);
        let done = match &r { Ok(EncodeResult::Complete) => true, Ok(EncodeResult::Full) => false, Err(_) => { assert!(false); true } };
        std::mem::forget(r);
        let mut i = 0;
        while i < dest.len() { out[n] = dest[i]; n += 1; i += 1; }
        rounds += 1;
        if done || rounds >= 3 { assert!(done); break; }
    }
    assert!(out[0] == 0x40);
    if rc == PubackReasonCode::Success {
        assert!(n == 4 && out[1] == 2 && out[2] == (pid >> 8) as u8 && out[3] == (pid & 0xff) as u8);
    } else {
        assert!(n == 5 && out[1] == 3 && out[2] == (pid >> 8) as u8 && out[3] == (pid & 0xff) as u8 && out[4] == 135);
    }
    std::mem::forget(enc);
    std::mem::forget(packet);
}

#[kani::proof]
#[kani::unwind(8)]
#[kani::stub(std::fmt::format, stub_format)]
fn probe3_decode_chunking4() {
    let bytes: [u8; 4] = kani::any();
    let split: usize = kani::any();
    kani::assume(split <= 4);
    let mut d1 = Decoder::new();
    let mut q1 = VecDeque::new();
    let r1 = { let mut c = DecodingContext { maximum_packet_size: 0, protocol_version: ProtocolVersion::Mqtt311, decoded_packets: &mut q1 }; d1.decode_bytes(&bytes, &mut c) };
    let mut d2 = Decoder::new();
    let mut q2 = VecDeque::new();
    let r2 = {
        let mut c = DecodingContext { maximum_packet_size: 0, protocol_version: ProtocolVersion::Mqtt311, decoded_packets: &mut q2 };
        let ra = d2.decode_bytes(&bytes[..split], &mut c);
        if ra.is_ok() { std::mem::forget(ra); d2.decode_bytes(&bytes[split..], &mut c) } else { ra }
    };
    let ok1 = r1.is_ok(); let ok2 = r2.is_ok();
    let n1 = q1.len(); let n2 = q2.len();
    std::mem::forget(r1); std::mem::forget(r2); std::mem::forget(q1); std::mem::forget(q2); std::mem::forget(d1); std::mem::forget(d2);
    assert!(ok1 == ok2);
    assert!(n1 == n2);
}

use crate::mqtt::{ConnackPacket, ConnectPacket, PingreqPacket, SubscribePacket};

fn mk_internal_op(id: u64, packet: MqttPacket) -> ClientOperation {
    ClientOperation { id, packet: Box::new(packet), qos2_pubrel: None, packet_id: None, options: None,
        ping_extension_base_timepoint: None, slow_start_ack_value: 0, interruption_count: 0 }
}

// (1) CONNACK while CONNECT is written but not flushed / half encoded / queued
#[kani::proof]
#[kani::unwind(6)]
#[kani::stub(std::fmt::format, stub_format)]
fn probe3_connack_before_flush() {
    let mut state = ProtocolState::new(mk_config());
    state.state = ProtocolStateType::PendingConnack;
    state.connack_timeout_timepoint = Some(zero_instant() + Duration::from_secs(30));
    state.operations.insert(1, mk_internal_op(1, MqttPacket::Connect(ConnectPacket { ..Default::default() })));
    let place: u8 = kani::any(); kani::assume(place < 3);
    match place {
        0 => { state.high_priority_operation_queue.push_back(1); }
        1 => { state.current_operation = Some(1); }
        _ => { state.pending_write_completion_operations.push_back(1); state.pending_write_completion = true; }
    }
    let mut events: VecDeque<PacketEvent> = VecDeque::new();
    let base = zero_instant();
    let ok = {
        let mut ctx = NetworkEventContext { event: NetworkEvent::WriteCompletion, current_time: base, packet_events: &mut events };
        let r = state.handle_packet(Box::new(MqttPacket::Connack(ConnackPacket { ..Default::default() })), &mut ctx);
        let ok = r.is_ok(); std::mem::forget(r); ok
    };
    // property: a CONNACK that arrives before the CONNECT was flushed must not be accepted
    assert!(!ok);
    std::mem::forget(events);
    std::mem::forget(state);
}

// (4) completing an internal operation (no callback)
#[kani::proof]
#[kani::unwind(3)]
#[kani::stub(std::fmt::format, stub_format)]
fn probe3_complete_internal_op() {
    let mut state = ProtocolState::new(mk_config());
    state.state = ProtocolStateType::Connected;
    state.operations.insert(1, mk_internal_op(1, MqttPacket::Pingreq(PingreqPacket {})));
    let r = state.complete_operation_as_failure(1, crate::error::GneissError::new_offline_queue_policy_failed());
    let ok = r.is_ok(); std::mem::forget(r);
    assert!(ok);
    assert!(state.operations.len() == 0);
    std::mem::forget(state);
}

// (2) connection closed with one retained QoS1 publish pending ack (no completion expected)
#[kani::proof]
#[kani::unwind(6)]
#[kani::stub(std::fmt::format, stub_format)]
fn probe3_connection_closed_retains_pending_publish() {
    let mut state = ProtocolState::new(mk_config());
    state.state = ProtocolStateType::Connected;
    let pid: u16 = kani::any(); kani::assume(pid != 0);
    let qos = if kani::any() { QualityOfService::AtLeastOnce } else { QualityOfService::ExactlyOnce };
    state.operations.insert(7, mk_publish_op(7, pid, qos));
    state.allocated_packet_ids.insert(pid, 7);
    state.pending_publish_operations.insert(pid, 7);
    let mut events: VecDeque<PacketEvent> = VecDeque::new();
    let base = zero_instant();
    let ok = {
        let mut ctx = NetworkEventContext { event: NetworkEvent::ConnectionClosed, current_time: base, packet_events: &mut events };
        let r = state.handle_network_event_connection_closed(&mut ctx);
        let ok = r.is_ok(); std::mem::forget(r); ok
    };
    assert!(ok);
    assert!(state.state == ProtocolStateType::Disconnected);
    assert!(state.resubmit_operation_queue.len() == 1);
    assert!(state.pending_publish_operations.len() == 0);
    let op = state.operations.get(&7).unwrap();
    if let MqttPacket::Publish(p) = &*op.packet { assert!(p.duplicate); assert!(p.packet_id == pid); } else { assert!(false); }
    assert!(unsafe { CALLS } == 0);
    std::mem::forget(events);
    std::mem::forget(state);
}

use crate::client::NegotiatedSettings;

// C14: service_keep_alive one step, symbolic K, ping timeout, clock
#[kani::proof]
#[kani::unwind(3)]
#[kani::stub(std::fmt::format, stub_format)]
fn probe3_keep_alive_step() {
    let mut cfg = mk_config();
    let pt_ms: u64 = kani::any();
    kani::assume(pt_ms <= 100_000_000);
    cfg.ping_timeout = Duration::from_millis(pt_ms);
    let mut state = ProtocolState::new(cfg);
    state.state = ProtocolStateType::Connected;
    let k: u16 = kani::any();
    kani::assume(k >= 1);
    state.current_settings = Some(NegotiatedSettings { server_keep_alive: k, ..Default::default() });
    let base = zero_instant();
    let now_ms: u64 = kani::any(); kani::assume(now_ms <= 1_000_000_000);
    let due_ms: u64 = kani::any(); kani::assume(due_ms <= now_ms);
    let now = base + Duration::from_millis(now_ms);
    state.next_ping_timepoint = Some(base + Duration::from_millis(due_ms));
    state.ping_timeout_timepoint = None;
    let mut to_socket: Vec<u8> = Vec::with_capacity(16);
    let ok = {
        let mut sctx = ServiceContext { to_socket: &mut to_socket, current_time: now };
        let r = state.service_keep_alive(&mut sctx);
        let ok = r.is_ok(); std::mem::forget(r); ok
    };
    assert!(ok);
    // a PINGREQ was queued in front
    assert!(state.high_priority_operation_queue.len() == 1);
    // deadline = now + min(ping timeout, K/2 seconds) with K/2 taken in real arithmetic (K*500 ms)
    let expect_ms = if pt_ms < (k as u64) * 500 { pt_ms } else { (k as u64) * 500 };
    kani::cover!(k % 2 == 1, "odd keep alive");
    assert!(state.ping_timeout_timepoint == Some(now + Duration::from_millis(expect_ms)));
    assert!(state.next_ping_timepoint == Some(now + Duration::from_secs(k as u64)));
    std::mem::forget(state);
}

use crate::encode::{EncodingStep, process_encoding_step};

// C02 decomposed: real step generation for PUBACK/MQTT5, each step processed by the real step processor into a roomy buffer
#[kani::proof]
#[kani::unwind(8)]
#[kani::stub(std::fmt::format, stub_format)]
fn probe3_puback5_steps_flat() {
    let pid: u16 = kani::any();
    let rc = if kani::any() { PubackReasonCode::Success } else { PubackReasonCode::NotAuthorized };
    let inner = PubackPacket { packet_id: pid, reason_code: rc, ..Default::default() };
    let ctx = EncodingContext { outbound_alias_resolution: OutboundAliasResolution::default(), protocol_version: ProtocolVersion::Mqtt5 };
    let mut steps: VecDeque<EncodingStep> = VecDeque::new();
    let r0 = crate::mqtt::puback::write_puback_encoding_steps5(&inner, &ctx, &mut steps);
    let ok = r0.is_ok(); std::mem::forget(r0);
    assert!(ok);
    let packet = MqttPacket::Puback(inner);
    let mut dest: Vec<u8> = Vec::with_capacity(64);
    let mut guard = 0;
    while let Some(step) = steps.pop_front() {
        let r = process_encoding_step(&mut steps, step, &packet, &mut dest);
        let ok = r.is_ok(); std::mem::forget(r);
        assert!(ok);
        guard += 1;
        if guard > 6 { break; }
    }
    assert!(steps.is_empty());
    assert!(dest[0] == 0x40);
    if rc == PubackReasonCode::Success {
        assert!(dest.len() == 4 && dest[1] == 2 && dest[2] == (pid >> 8) as u8 && dest[3] == (pid & 0xff) as u8);
    } else {
        assert!(dest.len() == 5 && dest[1] == 3 && dest[2] == (pid >> 8) as u8 && dest[3] == (pid & 0xff) as u8 && dest[4] == 135);
    }
    std::mem::forget(steps); std::mem::forget(packet); std::mem::forget(dest);
}

// C03: PUBACK MQTT5 body decoder on symbolic body <= 5 bytes: no panic, packet id faithful
#[kani::proof]
#[kani::unwind(8)]
#[kani::stub(std::fmt::format, stub_format)]
fn probe3_decode_puback5_body() {
    let body: [u8; 5] = kani::any();
    let n: usize = kani::any();
    kani::assume(n <= 5);
    let first: u8 = kani::any();
    let r = crate::mqtt::puback::decode_puback_packet5(first, &body[..n]);
    if let Ok(p) = &r {
        assert!(first == 0x40);
        assert!(n >= 2);
        if let MqttPacket::Puback(pa) = &**p { assert!(pa.packet_id == ((body[0] as u16) << 8 | body[1] as u16)); } else { assert!(false); }
    }
    std::mem::forget(r);
}

#[kani::proof]
#[kani::unwind(4)]
#[kani::stub(std::fmt::format, stub_format)]
fn probe3_decode_puback311_body() {
    let body: [u8; 3] = kani::any();
    let n: usize = kani::any();
    kani::assume(n <= 3);
    let first: u8 = kani::any();
    let r = crate::mqtt::puback::decode_puback_packet311(first, &body[..n]);
    if let Ok(p) = &r {
        assert!(first == 0x40);
        assert!(n == 2);
        if let MqttPacket::Puback(pa) = &**p { assert!(pa.packet_id == ((body[0] as u16) << 8 | body[1] as u16)); } else { assert!(false); }
    }
    std::mem::forget(r);
}

#[kani::proof]
#[kani::unwind(6)]
#[kani::stub(std::fmt::format, stub_format)]
fn probe3_puback311_steps_flat() {
    let pid: u16 = kani::any();
    let inner = PubackPacket { packet_id: pid, ..Default::default() };
    let ctx = EncodingContext { outbound_alias_resolution: OutboundAliasResolution::default(), protocol_version: ProtocolVersion::Mqtt311 };
    let mut steps: VecDeque<EncodingStep> = VecDeque::new();
    let r0 = crate::mqtt::puback::write_puback_encoding_steps311(&inner, &ctx, &mut steps);
    let ok = r0.is_ok(); std::mem::forget(r0);
    assert!(ok);
    let packet = MqttPacket::Puback(inner);
    let mut dest: Vec<u8> = Vec::with_capacity(64);
    let mut guard = 0;
    while let Some(step) = steps.pop_front() {
        let r = process_encoding_step(&mut steps, step, &packet, &mut dest);
        let ok = r.is_ok(); std::mem::forget(r);
        assert!(ok);
        guard += 1;
        if guard > 4 { break; }
    }
    assert!(steps.is_empty());
    assert!(dest.len() == 4 && dest[0] == 0x40 && dest[1] == 2 && dest[2] == (pid >> 8) as u8 && dest[3] == (pid & 0xff) as u8);
    std::mem::forget(steps); std::mem::forget(packet); std::mem::forget(dest);
}

#[kani::proof]
#[kani::unwind(4)]
#[kani::stub(std::fmt::format, stub_format)]
fn probe3_single_step_u16() {
    let pid: u16 = kani::any();
    let packet = MqttPacket::Puback(PubackPacket { packet_id: pid, ..Default::default() });
    let mut steps: VecDeque<EncodingStep> = VecDeque::new();
    let mut dest: Vec<u8> = Vec::with_capacity(8);
    let r = process_encoding_step(&mut steps, EncodingStep::Uint16(pid), &packet, &mut dest);
    let ok = r.is_ok(); std::mem::forget(r);
    assert!(ok);
    assert!(dest.len() == 2 && dest[0] == (pid >> 8) as u8 && dest[1] == (pid & 0xff) as u8);
    std::mem::forget(steps); std::mem::forget(packet); std::mem::forget(dest);
}

#[kani::proof]
#[kani::unwind(8)]
#[kani::stub(std::fmt::format, stub_format)]
fn probe3_puback5_steps_harness_flatten() {
    let pid: u16 = kani::any();
    let rc = if kani::any() { PubackReasonCode::Success } else { PubackReasonCode::NotAuthorized };
    let inner = PubackPacket { packet_id: pid, reason_code: rc, ..Default::default() };
    let ctx = EncodingContext { outbound_alias_resolution: OutboundAliasResolution::default(), protocol_version: ProtocolVersion::Mqtt5 };
    let mut steps: VecDeque<EncodingStep> = VecDeque::new();
    let r0 = crate::mqtt::puback::write_puback_encoding_steps5(&inner, &ctx, &mut steps);
    let ok = r0.is_ok(); std::mem::forget(r0);
    assert!(ok);
    let mut out: [u8; 16] = [0; 16];
    let mut n = 0usize;
    let mut guard = 0;
    while let Some(step) = steps.pop_front() {
        match step {
            EncodingStep::Uint8(v) => { out[n] = v; n += 1; }
            EncodingStep::Uint16(v) => { out[n] = (v >> 8) as u8; out[n + 1] = v as u8; n += 2; }
            EncodingStep::Uint32(v) => { out[n] = (v >> 24) as u8; out[n + 1] = (v >> 16) as u8; out[n + 2] = (v >> 8) as u8; out[n + 3] = v as u8; n += 4; }
            EncodingStep::Vli(v) => { assert!(v < 128); out[n] = v as u8; n += 1; }
            _ => { assert!(false); }
        }
        guard += 1;
        if guard > 6 { break; }
    }
    assert!(steps.is_empty());
    assert!(out[0] == 0x40);
    if rc == PubackReasonCode::Success {
        assert!(n == 4 && out[1] == 2 && out[2] == (pid >> 8) as u8 && out[3] == (pid & 0xff) as u8);
    } else {
        assert!(n == 5 && out[1] == 3 && out[2] == (pid >> 8) as u8 && out[3] == (pid & 0xff) as u8 && out[4] == 135);
    }
    std::mem::forget(steps);
}

#[kani::proof]
#[kani::unwind(8)]
#[kani::stub(std::fmt::format, stub_format)]
fn probe3_decode_puback5_body_len4() {
    let body: [u8; 4] = kani::any();
    let first: u8 = kani::any();
    let r = crate::mqtt::puback::decode_puback_packet5(first, &body);
    if let Ok(p) = &r {
        assert!(first == 0x40);
        assert!(body[3] == 0);
        if let MqttPacket::Puback(pa) = &**p { assert!(pa.packet_id == ((body[0] as u16) << 8 | body[1] as u16)); } else { assert!(false); }
    }
    std::mem::forget(r);
}

#[kani::proof]
#[kani::unwind(8)]
#[kani::stub(std::fmt::format, stub_format)]
fn probe3_decode_puback5_body_len7() {
    let body: [u8; 7] = kani::any();
    let first: u8 = kani::any();
    let r = crate::mqtt::puback::decode_puback_packet5(first, &body);
    if let Ok(p) = &r {
        assert!(first == 0x40);
        assert!(body[3] == 3);
        if let MqttPacket::Puback(pa) = &**p { assert!(pa.packet_id == ((body[0] as u16) << 8 | body[1] as u16)); } else { assert!(false); }
    }
    std::mem::forget(r);
}

use super::{does_packet_pass_offline_queue_policy, build_negotiated_settings};
use crate::mqtt::{UnsubackReasonCode, SubscribePacket as SubP, UnsubscribePacket};
use crate::validate::OutboundValidationContext;

#[kani::proof]
#[kani::unwind(3)]
fn probe3_offline_policy_table() {
    let pol = match kani::any::<u8>() % 4 { 0 => OfflineQueuePolicy::PreserveAll, 1 => OfflineQueuePolicy::PreserveAcknowledged, 2 => OfflineQueuePolicy::PreserveQos1PlusPublishes, _ => OfflineQueuePolicy::PreserveNothing };
    let q: u8 = kani::any(); kani::assume(q < 3);
    let qos = match q { 0 => QualityOfService::AtMostOnce, 1 => QualityOfService::AtLeastOnce, _ => QualityOfService::ExactlyOnce };
    let publish = MqttPacket::Publish(PublishPacket { qos, ..Default::default() });
    let sub = MqttPacket::Subscribe(SubP { ..Default::default() });
    let unsub = MqttPacket::Unsubscribe(UnsubscribePacket { ..Default::default() });
    let ping = MqttPacket::Pingreq(PingreqPacket {});
    let p = does_packet_pass_offline_queue_policy(&publish, &pol);
    let s = does_packet_pass_offline_queue_policy(&sub, &pol);
    let u = does_packet_pass_offline_queue_policy(&unsub, &pol);
    let g = does_packet_pass_offline_queue_policy(&ping, &pol);
    let (ep, es) = match pol {
        OfflineQueuePolicy::PreserveAll => (true, true),
        OfflineQueuePolicy::PreserveAcknowledged => (q > 0, true),
        OfflineQueuePolicy::PreserveQos1PlusPublishes => (q > 0, false),
        _ => (false, false),
    };
    assert!(p == ep && s == es && u == es && !g);
    std::mem::forget(publish); std::mem::forget(sub); std::mem::forget(unsub);
}

#[kani::proof]
#[kani::unwind(3)]
#[kani::stub(std::fmt::format, stub_format)]
fn probe3_unsuback_reason_table() {
    let b: u8 = kani::any();
    let r = UnsubackReasonCode::try_from(b);
    let ok = r.is_ok(); std::mem::forget(r);
    // MQTT 5.0 table 3.11.3
    let legal = b == 0 || b == 17 || b == 128 || b == 131 || b == 135 || b == 143 || b == 145;
    assert!(ok == legal);
}

#[kani::proof]
#[kani::unwind(3)]
#[kani::stub(std::fmt::format, stub_format)]
fn probe3_negotiated_settings() {
    let cfg = mk_config();
    let rm: Option<u16> = if kani::any() { Some(kani::any()) } else { None };
    let ka: Option<u16> = if kani::any() { Some(kani::any()) } else { None };
    let mps: Option<u32> = if kani::any() { Some(kani::any()) } else { None };
    let ra: Option<bool> = if kani::any() { Some(kani::any()) } else { None };
    let connack = ConnackPacket { receive_maximum: rm, server_keep_alive: ka, maximum_packet_size: mps, retain_available: ra, session_present: kani::any(), ..Default::default() };
    let s = build_negotiated_settings(&cfg, &connack, &None);
    assert!(s.receive_maximum_from_server == rm.unwrap_or(65535));
    assert!(s.server_keep_alive == ka.unwrap_or(1200));
    assert!(s.maximum_packet_size_to_server == mps.unwrap_or(268435455));
    assert!(s.retain_available == ra.unwrap_or(true));
    assert!(s.rejoined_session == connack.session_present);
    assert!(s.maximum_qos == QualityOfService::ExactlyOnce);
    std::mem::forget(s); std::mem::forget(connack); std::mem::forget(cfg);
}

#[kani::proof]
#[kani::unwind(3)]
#[kani::stub(std::fmt::format, stub_format)]
fn probe3_ack_timeout_overflow() {
    let mut state = ProtocolState::new(mk_config());
    let secs: u64 = kani::any();
    let mut op = mk_publish_op(7, 5, QualityOfService::AtLeastOnce);
    if let Some(ClientOperationOptions::Publish(o)) = &mut op.options { o.options.ack_timeout = Some(Duration::from_secs(secs)); }
    state.operations.insert(7, op);
    let now_ms: u64 = kani::any(); kani::assume(now_ms <= 1_000_000_000);
    let now = zero_instant() + Duration::from_millis(now_ms);
    state.start_operation_ack_timeout(7, now);       // must not panic for any accepted timeout
    assert!(state.operation_ack_timeouts.len() == 1);
    std::mem::forget(state);
}

#[kani::proof]
#[kani::unwind(4)]
#[kani::stub(std::fmt::format, stub_format)]
fn probe3_validate_publish_dynamic() {
    let settings = NegotiatedSettings {
        maximum_qos: match kani::any::<u8>() % 3 { 0 => QualityOfService::AtMostOnce, 1 => QualityOfService::AtLeastOnce, _ => QualityOfService::ExactlyOnce },
        retain_available: kani::any(),
        maximum_packet_size_to_server: kani::any(),
        ..Default::default()
    };
    let q: u8 = kani::any(); kani::assume(q < 3);
    let qos = match q { 0 => QualityOfService::AtMostOnce, 1 => QualityOfService::AtLeastOnce, _ => QualityOfService::ExactlyOnce };
    let pid: u16 = kani::any();
    let retain: bool = kani::any();
    let plen: usize = kani::any(); kani::assume(plen <= 300);
    let packet = PublishPacket { topic: "ab".to_string(), qos, packet_id: pid, retain, payload: Some(vec![0u8; plen]), ..Default::default() };
    let ctx = OutboundValidationContext { negotiated_settings: Some(&settings), connect_options: None, outbound_alias_resolution: None };
    let r = crate::mqtt::publish::validate_publish_packet_outbound_internal(&packet, &ctx);
    let ok = r.is_ok(); std::mem::forget(r);
    // oracle: fixed header 1 + VBI(remaining) + remaining; remaining = 2+2 (+2 id) + 1 (prop len 0) + payload
    let remaining = 4 + (if q > 0 { 2 } else { 0 }) + 1 + plen;
    let total = 1 + (if remaining < 128 { 1 } else { 2 }) + remaining;
    let mq = match settings.maximum_qos { QualityOfService::AtMostOnce => 0u8, QualityOfService::AtLeastOnce => 1, _ => 2 };
    let expect = (total as u32) <= settings.maximum_packet_size_to_server && !(q > 0 && pid == 0) && !(retain && !settings.retain_available) && q <= mq;
    assert!(ok == expect);
    std::mem::forget(packet);
}
#[test]
fn kani_concrete_playback_probe3_validate_publish_lengths_8448047650751436056() {
    let concrete_vals: Vec<Vec<u8>> = vec![
        // 2ul
        vec![2, 0, 0, 0, 0, 0, 0, 0],
        // 99
        vec![99],
        // 99
        vec![99],
        // 0ul
        vec![0, 0, 0, 0, 0, 0, 0, 0],
        // 0ul
        vec![0, 0, 0, 0, 0, 0, 0, 0],
        // 65536ul
        vec![0, 0, 1, 0, 0, 0, 0, 0],
    ];
    kani::concrete_playback_run(concrete_vals, probe3_validate_publish_lengths);
}

#[kani::proof]
#[kani::unwind(5)]
#[kani::stub(std::fmt::format, stub_format)]
fn probe3_decode_puback5_body_len3_u5() {
    let body: [u8; 3] = kani::any();
    let r = crate::mqtt::puback::decode_puback_packet5(0x40, &body);
    if let Ok(p) = &r {
        if let MqttPacket::Puback(pa) = &**p { assert!(pa.packet_id == ((body[0] as u16) << 8 | body[1] as u16)); } else { assert!(false); }
    }
    std::mem::forget(r);
}
